NOTES = ("Runtime monitoring only: every verdict is 'held on the executions observed', 'violated' (exit 1 + replay) or "
         "'inconclusive' (exit 2; never occurs on the unchanged tree). Known findings live in known_findings.json and are keyed by mechanism.")
NOT_APPLICABLE = {}

reg("C03", "exploration",
    "Generated plans/caps/cooldown histories are fed to the real t4_filter; every result is judged by envelope predicates, an independent exact-rational reference pipeline, exact equality over permutations of the delta list (all n! up to 6), argument snapshots, repeat calls and re-calls after unrelated calls on fresh and on long-lived in-place-edited config objects. Sampled, not exhaustive: held on the cases observed.",
    "Trusts the harness' reference pipeline and ckey construction; NaN/inf inputs and ':' inside target ids are outside the generated domain.",
    "envelope assertions + reference-model differential + permutation twin on the real function")
