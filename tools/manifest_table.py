NOTES = ("Runtime monitoring only: every verdict is 'held on the executions observed', 'violated' (exit 1 + replay) or "
         "'inconclusive' (exit 2; never occurs on the unchanged tree). Known findings live in known_findings.json and are keyed by mechanism.")
NOT_APPLICABLE = {}

reg("C03", "exploration",
    "Generated plans/caps/cooldown histories are fed to the real t4_filter; every result is judged by envelope predicates, an independent exact-rational reference pipeline, exact equality over permutations of the delta list (all n! up to 6), argument snapshots, repeat calls and re-calls after unrelated calls on fresh and on long-lived in-place-edited config objects. Sampled, not exhaustive: held on the cases observed.",
    "Trusts the harness' reference pipeline and ckey construction; NaN/inf inputs and ':' inside target ids are outside the generated domain.",
    "envelope assertions + reference-model differential + permutation twin on the real function")

reg("C07", "exploration",
    "The round-trip law apply_delta(base, compute_delta(base, cur)) == cur is checked under type-exact canonical JSON equality on every ordered pair of an enumerated universe of 1266 small objects (dotted/empty keys, every JSON scalar type, lists, nested objects; ~1.6M pairs, exhaustive for that universe) plus random payload-shaped pairs; the on-disk path (write_snapshot_auto delta mode + read_snapshot, both call forms) is run against ten baseline conditions (present, deleted with/without sidecar, truncated, garbage, empty, header-only, wrong shape, directory, temp-file decoys) and must return the payload, {} or raise - never another object.",
    "Only codec 'none' exists in the image (no zstandard). Trusts the harness' canonical-JSON encoder. A well-formed baseline with foreign content under the same etag is not generated.",
    "round-trip oracle over exhaustive small universe + fault-conditioned disk round trips on the real codec/reader/writer")

reg("C12", "exploration",
    "Generated graphs (chains, stars, cycles, self-loops, parallel edges, negative/zero/huge weights, unknown relations, tags, empty labels), texts, decay modes and every cap at 0/1/tight/loose (validated configs, plus raw configs for iter_cap_layers/relax_cap which the validator rejects) and slice caps are run through the real t1_propagate with the stage cache off. Each call is judged by model-free invariants (seed set, reachability within min(radius, layers) hops, pops/layers/relaxations within the effective budgets, sorted unique ids per graph, multi-graph result = concatenation and counter sums of single-graph runs, store fingerprint and arguments unchanged, repeat call equal), by hooked work counts (t1.heapq proxy, _compute_decay wrapper) against the reported counters, and by exact comparison with an independent reference model of the spreading rule (touched ids, all six counters, max_delta). Sampled: held on the cases observed.",
    "Trusts the harness' reference model (cross-checked by the model-free invariants and hooked event counts). Contribution values are only observable through touched sets, counters and max_delta. With perf frontier/visited/dedupe caps on, only invariants are enforced.",
    "invariant assertions + hooked event counts + reference-model differential on the real stage function")
