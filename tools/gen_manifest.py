#!/venv/bin/python
"""Regenerates MANIFEST.json from the table below and validates it against the schema."""
import json
import os
import sys

VERIF = os.path.dirname(os.path.dirname(os.path.abspath(__file__)))
sys.path.insert(0, VERIF)
sys.path.append(os.path.join(VERIF, ".deps"))

CHECKS = {}  # pid -> dict(level, text, note, technique, design_ref)


def reg(pid, level, text, note, technique, thorough=True):
    CHECKS[pid] = dict(level=level, text=text, note=note, technique=technique, thorough=thorough)


exec(open(os.path.join(VERIF, "tools", "manifest_table.py")).read())

props = [json.loads(l) for l in open(os.path.join(VERIF, "properties.jsonl"))]
checks = []
na = []
for p in props:
    pid = p["id"]
    c = CHECKS.get(pid)
    have = any(f.lower().startswith(pid.lower() + "_") for f in os.listdir(os.path.join(VERIF, "checks")))
    if not c or not have:
        na.append({"property_id": pid, "reason": NOT_APPLICABLE.get(pid, "check not built yet (work in progress); nothing is claimed for this property")})
        continue
    e = {
        "property_id": pid,
        "quick_cmd": f"./check {pid} --tier quick",
        "evidence_file": f"evidence/{pid}.json",
        "replay_cmd_template": f"./check {pid} --replay {{path}}",
        "level_claimed": {"category": c["level"], "text": c["text"], "design_ref": f"DESIGN.md section 4, {pid}"},
        "level_note": c["note"],
        "technique": c["technique"],
    }
    if c["thorough"]:
        e["thorough_cmd"] = f"./check {pid} --tier thorough"
    checks.append(e)

man = {
    "version": 1,
    "setup_cmd": "./setup.sh",
    "hooks": {
        "guard": "CLEMATIS_VERIF",
        "enable": "no source hooks are needed: monitors attach from the harness through the engine's own call-time override points, module-attribute rebinding, sys.monitoring and strace; checks import /repo's working tree directly (VERIF_REPO overrides the path for scratch copies)",
        "baseline_off_cmd": "cd /repo && /venv/bin/python -m pytest -ra -q -p no:cacheprovider --timeout=900 --continue-on-collection-errors",
        "source_commits": [],
        "add_only": True,
    },
    "engines": [{"name": "runtime-monitor harness", "path": "check", "serves_properties": [c["property_id"] for c in checks],
                 "kind_free_text": "runtime monitoring: generated/hostile/fault-injected workloads on the real code, judged by envelope predicates, reference models, twin executions and recorded-history checkers"}],
    "checks": checks,
    "notes": NOTES,
    "not_applicable": na,
}
path = os.path.join(VERIF, "MANIFEST.json")
json.dump(man, open(path, "w"), indent=1)
try:
    import jsonschema
    jsonschema.validate(man, json.load(open("/root/.vp/MANIFEST.schema.json")))
    print("MANIFEST valid;", len(checks), "checks,", len(na), "not claimed")
except ImportError:
    print("jsonschema missing; wrote unvalidated")
