#!/venv/bin/python
"""Run every confirmed seeded change under /verif/seeded against the quick check of its property (scratch
worktree of /repo HEAD, removed afterwards) and record the outcome in its meta.json ("caught_by").
usage: run_seeds.py [prefix ...]"""
import json, os, subprocess, sys, shutil, tempfile, concurrent.futures as cf

HERE = os.path.dirname(os.path.abspath(__file__)); VERIF = os.path.dirname(HERE)
sel = sys.argv[1:]
seeds = sorted(d for d in os.listdir(VERIF + "/seeded") if os.path.exists(f"{VERIF}/seeded/{d}/patch.diff"))
if sel:
    seeds = [s for s in seeds if any(s.startswith(x) for x in sel)]


def run(sd):
    pid = sd.split("-")[0]
    meta_p = f"{VERIF}/seeded/{sd}/meta.json"
    meta = json.load(open(meta_p))
    checks = meta.get("also_check", []) + [pid]
    base = tempfile.mkdtemp(prefix="vsd_", dir="/var/tmp"); wt = base + "/wt"
    res = {}
    try:
        subprocess.run(["git", "-C", "/repo", "worktree", "add", "--detach", wt, "HEAD"], check=True, capture_output=True)
        r = subprocess.run(["git", "-C", wt, "apply", f"{VERIF}/seeded/{sd}/patch.diff"], capture_output=True, text=True)
        if r.returncode:
            return sd, {"apply": "FAILED " + r.stderr[-100:]}
        for c in dict.fromkeys(checks):
            p = subprocess.run([VERIF + "/check", c, "--tier", "quick", "--seed", os.environ.get("SEEDS_CHECK_SEED", "0")], cwd=VERIF, env={**os.environ, "VERIF_REPO": wt, "VERIF_OUT": base + "/out"}, capture_output=True, text=True)
            mech = sorted({l.strip().split(" ")[0].split("=", 1)[1] for l in p.stdout.splitlines() if l.strip().startswith("mechanism=")})
            res[c] = {"rc": p.returncode, "mechanisms": mech[:6]}
    finally:
        subprocess.run(["git", "-C", "/repo", "worktree", "remove", "--force", wt], capture_output=True)
        shutil.rmtree(base, ignore_errors=True)
    meta["caught_by"] = {c: v for c, v in res.items() if v["rc"] == 1} or None
    meta["check_results"] = res
    json.dump(meta, open(meta_p, "w"), indent=1)
    return sd, res


bad = 0
with cf.ThreadPoolExecutor(max_workers=3) as ex:
    for sd, res in ex.map(run, seeds):
        ok = any(v.get("rc") == 1 for v in res.values() if isinstance(v, dict))
        bad += not ok
        print(("CAUGHT " if ok else "MISSED ") + sd, {c: (v["rc"], v["mechanisms"][:2]) for c, v in res.items() if isinstance(v, dict)} or res)
sys.exit(1 if bad else 0)
