#!/venv/bin/python
"""Run the quick check of each mutant's property against a scratch worktree with the mutant applied.
usage: run_mutants.py [prefix ...]   (e.g. C12, or C12-radius)   --tier quick
Every mutant must make its check exit 1.  Prints a table; exit 0 iff all were caught."""
import os, subprocess, sys, shutil, tempfile, time, concurrent.futures as cf

HERE = os.path.dirname(os.path.abspath(__file__))
VERIF = os.path.dirname(HERE)
args = [a for a in sys.argv[1:] if not a.startswith("--")]
tier = "quick"
for a in sys.argv[1:]:
    if a.startswith("--tier="):
        tier = a.split("=", 1)[1]
muts = sorted(f for f in os.listdir(os.path.join(HERE, "mutants")) if f.endswith(".diff"))
if args:
    muts = [m for m in muts if any(m.startswith(a) for a in args)]


def run(m):
    pid = m.split("-")[0]
    base = tempfile.mkdtemp(prefix="vm_", dir="/var/tmp")
    wt = base + "/wt"
    try:
        subprocess.run(["git", "-C", "/repo", "worktree", "add", "--detach", wt, "HEAD"], check=True, capture_output=True)
        r = subprocess.run(["git", "-C", wt, "apply", os.path.join(HERE, "mutants", m)], capture_output=True, text=True)
        if r.returncode:
            return m, "NOAPPLY", 0, r.stderr[-200:]
        t0 = time.time()
        env = {**os.environ, "VERIF_REPO": wt, "VERIF_OUT": base + "/out"}
        p = subprocess.run([VERIF + "/check", pid, "--tier", tier], cwd=VERIF, env=env, capture_output=True, text=True)
        mech = [l.strip() for l in p.stdout.splitlines() if l.strip().startswith("mechanism=")]
        return m, {1: "CAUGHT", 0: "MISSED", 2: "INCONCLUSIVE"}.get(p.returncode, f"rc{p.returncode}"), time.time() - t0, (mech[0][:160] if mech else p.stdout[-300:] + p.stderr[-300:])
    finally:
        subprocess.run(["git", "-C", "/repo", "worktree", "remove", "--force", wt], capture_output=True)
        shutil.rmtree(base, ignore_errors=True)


bad = 0
with cf.ThreadPoolExecutor(max_workers=3) as ex:
    for m, st, dt, info in ex.map(run, muts):
        print(f"{st:12s} {m:40s} {dt:5.0f}s  {info}")
        bad += st != "CAUGHT"
sys.exit(1 if bad else 0)
