#!/venv/bin/python
"""Apply a patch to a scratch worktree of /repo HEAD (outside /repo and /verif), run the
given checks against it with VERIF_REPO, print exit codes, remove the worktree.

usage: try_patch.py <patch.diff> <Cnn> [<Cnn>...] [--tier quick] [--keep] [--tests]
"""
import argparse
import os
import shutil
import subprocess
import sys
import tempfile
import time

HERE = os.path.dirname(os.path.abspath(__file__))
VERIF = os.path.dirname(HERE)


def main():
    ap = argparse.ArgumentParser()
    ap.add_argument("patch")
    ap.add_argument("checks", nargs="+")
    ap.add_argument("--tier", default="quick")
    ap.add_argument("--tests", action="store_true", help="also run the repository test suite on the patched tree")
    ap.add_argument("--seed", default="0")
    a = ap.parse_args()
    base = tempfile.mkdtemp(prefix="vt_", dir="/var/tmp")
    wt = os.path.join(base, "wt")
    out = os.path.join(base, "out")
    os.makedirs(out)
    rc_all = {}
    try:
        subprocess.run(["git", "-C", "/repo", "worktree", "add", "--detach", wt, "HEAD"], check=True, capture_output=True)
        r = subprocess.run(["git", "-C", wt, "apply", os.path.abspath(a.patch)], capture_output=True, text=True)
        if r.returncode != 0:
            r = subprocess.run(["git", "-C", wt, "apply", "--3way", os.path.abspath(a.patch)], capture_output=True, text=True)
            if r.returncode != 0:
                print("PATCH-DOES-NOT-APPLY", r.stderr[-500:])
                return 3
        if a.tests:
            t = subprocess.run(["/venv/bin/python", "-m", "pytest", "-q", "-p", "no:cacheprovider", "--timeout=900", "-x"],
                               cwd=wt, env={**os.environ, "PYTHONPATH": wt}, capture_output=True, text=True)
            print("TESTS rc=%d %s" % (t.returncode, t.stdout.strip().splitlines()[-1] if t.stdout.strip() else ""))
        for c in a.checks:
            t0 = time.time()
            env = {**os.environ, "VERIF_REPO": wt, "VERIF_OUT": out, "VERIF_SEED": a.seed}
            p = subprocess.run([os.path.join(VERIF, "check"), c, "--tier", a.tier], cwd=VERIF, env=env,
                               capture_output=True, text=True)
            rc_all[c] = p.returncode
            lines = [l for l in p.stdout.splitlines() if l.startswith(("VIOLATION", "  mechanism", "INCONCLUSIVE", "[" + c))]
            print(f"== {c} rc={p.returncode} ({time.time() - t0:.0f}s)")
            for l in lines[:8]:
                print("   " + l[:400])
            if p.returncode not in (0, 1):
                print(p.stdout[-1500:], p.stderr[-1500:])
    finally:
        subprocess.run(["git", "-C", "/repo", "worktree", "remove", "--force", wt], capture_output=True)
        shutil.rmtree(base, ignore_errors=True)
    return 0 if all(v == 1 for v in rc_all.values()) else 1


if __name__ == "__main__":
    sys.exit(main())
