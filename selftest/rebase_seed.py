#!/venv/bin/python
"""Re-base a seeded patch that stopped applying after a repository fix: 3-way apply in a scratch worktree of /repo HEAD,
re-confirm (demo fails with it, passes without, suite green), then replace seeded/<id>/patch.diff.
usage: rebase_seed.py <Cnn-k>"""
import json, os, subprocess, sys, shutil, tempfile
HERE = os.path.dirname(os.path.abspath(__file__)); VERIF = os.path.dirname(HERE)
sd = sys.argv[1]
base = tempfile.mkdtemp(prefix="vrb_", dir="/var/tmp"); wt = base + "/wt"
def sh(*a, **k):
    return subprocess.run(list(a), capture_output=True, text=True, **k)
try:
    sh("git", "-C", "/repo", "worktree", "add", "--detach", wt, "HEAD")
    r = sh("git", "-C", wt, "apply", "--3way", f"{VERIF}/seeded/{sd}/patch.diff")
    if r.returncode:
        print("3way failed:", r.stderr[-400:]); sys.exit(1)
    sh("git", "-C", wt, "reset", "-q")
    diff = sh("git", "-C", wt, "diff").stdout
    if "<<<<<<<" in diff:
        print("conflict markers"); sys.exit(1)
    env = {**os.environ, "PYTHONPATH": wt}
    shutil.copy(f"{VERIF}/seeded/{sd}/demo.py", wt + "/_demo.py")
    dp = sh("/venv/bin/python", "_demo.py", cwd=wt, env=env).returncode
    os.unlink(wt + "/_demo.py")
    t = sh("/venv/bin/python", "-m", "pytest", "-q", "-p", "no:cacheprovider", "--timeout=900", "-x", cwd=wt, env=env)
    sh("git", "-C", wt, "checkout", "--", ".")
    shutil.copy(f"{VERIF}/seeded/{sd}/demo.py", wt + "/_demo.py")
    dc = sh("/venv/bin/python", "_demo.py", cwd=wt, env=env).returncode
    print(json.dumps({"demo_patched_rc": dp, "tests_rc": t.returncode, "demo_clean_rc": dc, "tests_tail": t.stdout[-80:]}))
    if dp != 0 and t.returncode == 0 and dc == 0:
        open(f"{VERIF}/seeded/{sd}/patch.diff", "w").write(diff)
        m = json.load(open(f"{VERIF}/seeded/{sd}/meta.json"))
        m["rebased_onto"] = sh("git", "-C", "/repo", "log", "-1", "--format=%h").stdout.strip()
        json.dump(m, open(f"{VERIF}/seeded/{sd}/meta.json", "w"), indent=1)
        print("rebased", sd)
    else:
        sys.exit(1)
finally:
    sh("git", "-C", "/repo", "worktree", "remove", "--force", wt)
    shutil.rmtree(base, ignore_errors=True)
