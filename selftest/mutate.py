#!/venv/bin/python
"""Create a mutant patch by exact string replacement in a file of /repo HEAD.
usage: mutate.py <Cnn-name> <repo-relative file> <old> <new> [count]
Writes selftest/mutants/<Cnn-name>.diff (unified diff appliable with git apply)."""
import difflib, os, subprocess, sys

name, rel, old, new = sys.argv[1:5]
src = subprocess.run(["git", "-C", "/repo", "show", f"HEAD:{rel}"], capture_output=True, text=True, check=True).stdout
if old not in src:
    sys.exit(f"pattern not found in {rel}")
if src.count(old) > 1 and len(sys.argv) < 6:
    sys.exit(f"pattern occurs {src.count(old)} times; pass a count")
dst = src.replace(old, new, int(sys.argv[5]) if len(sys.argv) > 5 else 1)
diff = "".join(difflib.unified_diff(src.splitlines(True), dst.splitlines(True), f"a/{rel}", f"b/{rel}"))
out = os.path.join(os.path.dirname(os.path.abspath(__file__)), "mutants", name + ".diff")
mode = "a" if os.path.exists(out) and os.environ.get("APPEND") else "w"
open(out, mode).write(diff)
print("wrote", out)
