#!/venv/bin/python
"""Confirm a seeded breaking change independently and file it under /verif/seeded/<Cnn>-<k>/.

  confirm_seed.py <Cnn> <k> [--ported <diff against current /repo HEAD>]

Steps (scratch worktree under /var/tmp, removed afterwards):
  1. demo on the clean tree must exit 0;  2. patch applies;  3. demo must exit non-zero;
  4. the repository's own test suite must stay green with the patch applied.
If the original patch no longer applies to /repo HEAD (because of later fix: commits) it is
confirmed against the commit it was written for, and a ported patch is stored as patch.diff.
"""
import argparse, json, os, shutil, subprocess, sys, tempfile

BASE0 = "0e8b209"
PY = "/venv/bin/python"


def sh(cmd, cwd, env=None, timeout=1800):
    p = subprocess.run(cmd, cwd=cwd, env=env, capture_output=True, text=True, timeout=timeout)
    return p.returncode, (p.stdout + p.stderr)[-1500:]


def main():
    ap = argparse.ArgumentParser()
    ap.add_argument("pid"); ap.add_argument("k"); ap.add_argument("--ported", default=None)
    a = ap.parse_args()
    src = f"/tmp/seed/{a.pid}/out"
    patch = f"{src}/patch{a.k}.diff"; demo = f"{src}/demo{a.k}.py"
    notes = json.load(open(f"{src}/notes.json")).get(f"patch{a.k}", {})
    base = tempfile.mkdtemp(prefix="vs_", dir="/var/tmp"); wt = base + "/wt"
    res = {}
    try:
        head = subprocess.run(["git", "-C", "/repo", "rev-parse", "--short", "HEAD"], capture_output=True, text=True).stdout.strip()
        commit = head
        subprocess.run(["git", "-C", "/repo", "worktree", "add", "--detach", wt, commit], check=True, capture_output=True)
        if subprocess.run(["git", "-C", wt, "apply", "--check", patch], capture_output=True).returncode != 0:
            subprocess.run(["git", "-C", "/repo", "worktree", "remove", "--force", wt], capture_output=True)
            commit = BASE0
            subprocess.run(["git", "-C", "/repo", "worktree", "add", "--detach", wt, commit], check=True, capture_output=True)
        env = {**os.environ, "PYTHONPATH": wt, "PYTHONDONTWRITEBYTECODE": "1"}
        shutil.copy(demo, wt + "/_demo.py")
        res["confirmed_on_commit"] = commit
        res["demo_clean_rc"], out0 = sh([PY, "_demo.py"], wt, env)
        rc, o = sh(["git", "apply", patch], wt)
        res["apply_rc"] = rc
        res["demo_patched_rc"], out1 = sh([PY, "_demo.py"], wt, env)
        res["demo_patched_tail"] = out1[-300:]
        os.unlink(wt + "/_demo.py")
        rc, o = sh([PY, "-m", "pytest", "-q", "-p", "no:cacheprovider", "--timeout=900", "-x"], wt, env)
        res["tests_rc"] = rc; res["tests_tail"] = o.strip().splitlines()[-1] if o.strip() else ""
        ok = res["demo_clean_rc"] == 0 and res["apply_rc"] == 0 and res["demo_patched_rc"] != 0 and res["tests_rc"] == 0
        res["confirmed"] = ok
        print(json.dumps(res, indent=1))
        if ok:
            dst = f"/verif/seeded/{a.pid}-{a.k}"
            os.makedirs(dst, exist_ok=True)
            if a.ported:
                shutil.copy(patch, dst + "/patch.orig.diff"); shutil.copy(a.ported, dst + "/patch.diff")
            else:
                shutil.copy(patch, dst + "/patch.diff")
            shutil.copy(demo, dst + "/demo.py")
            meta = {"property": a.pid, "breaks": notes.get("breaks"), "needs": notes.get("needs"),
                    "why_tests_pass": notes.get("why_tests_pass"), "files": notes.get("files"),
                    "source": "independent sub-agent given only the property text and a scratch worktree",
                    "what_i_ran": ["demo on clean tree (exit 0)", "git apply patch", "demo on patched tree (non-zero)",
                                   "pytest -q -p no:cacheprovider --timeout=900 -x on patched tree (green)"],
                    "results": res,
                    "patch_applies_to": ("current /repo HEAD " + head) if (commit == head or a.ported) else commit,
                    "ported": bool(a.ported), "caught_by": None}
            json.dump(meta, open(dst + "/meta.json", "w"), indent=1)
    finally:
        subprocess.run(["git", "-C", "/repo", "worktree", "remove", "--force", wt], capture_output=True)
        shutil.rmtree(base, ignore_errors=True)
    return 0 if res.get("confirmed") else 1


if __name__ == "__main__":
    sys.exit(main())
