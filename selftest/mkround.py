import json,sys,os,subprocess
pid=sys.argv[1]; k0=int(sys.argv[2])
os.makedirs(f'/tmp/seed/{pid}/out',exist_ok=True)
subprocess.run(['git','-C','/repo','worktree','add','--detach',f'/tmp/seed/{pid}/wt','HEAD'],capture_output=True)
for l in open('/verif/properties.jsonl'):
    p=json.loads(l)
    if p['id']==pid:
        txt=f"Property {pid}: {p['title']}\n\nStatement: {p['statement']}\n\nQuantifier: {p['quantifier']['text']}\n\nWhy existing tests cannot settle it: {p['why_tests_cant']}\n\nCode anchors: files={p['anchors'].get('files')}; mechanisms={[ (m['name'],m['where']) for m in p['anchors'].get('mechanism',[])]}; observe at={p['anchors'].get('observe_at')}\n"
t=open(os.path.join(os.path.dirname(os.path.abspath(__file__)),'seed_prompt.tmpl')).read().replace('@PID@',pid).replace('@PROPERTY@',txt)
a,b=k0,k0+1
t=t.replace('patch1',f'patch{a}').replace('patch2',f'patch{b}').replace('demo1',f'demo{a}').replace('demo2',f'demo{b}').replace('K in {1,2}',f'K in {{{a},{b}}}')
prev=[]
for d in sorted(os.listdir('/verif/seeded')):
    if d.startswith(pid+'-'):
        m=json.load(open(f'/verif/seeded/{d}/meta.json'))
        prev.append('- '+(m.get('breaks') or '')[:400].replace('\n',' '))
if prev:
    t+=f"\n\nAdditional constraint for this round: earlier patches for this property already exist and must NOT be repeated or paraphrased (pick other clauses of the property, other code sites or other mechanisms; prefer subtle multi-step / boundary / fault / interleaving triggers). The output files of this round are numbered {a} and {b} (patch{a}.diff, demo{a}.py, patch{b}.diff, demo{b}.py; notes.json keys patch{a}/patch{b}). Earlier patches:\n"+"\n".join(prev)+"\n"
open(f'/tmp/seed/{pid}/prompt.txt','w').write(t)
print(pid,'ready',len(prev),'earlier')
