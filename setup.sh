#!/bin/sh
# Offline setup: install the pure-python helper wheels next to the harness (git-ignored .deps).
set -e
cd "$(dirname "$0")"
test -x /venv/bin/python || { echo "missing /venv/bin/python"; exit 1; }
mkdir -p .deps evidence
PIP_NO_INDEX=1 /venv/bin/python -m pip install -q --no-index --find-links /opt/veriftools/wheels --target .deps icontract deal jsonschema >/dev/null 2>&1 || \
  echo "warning: helper wheels not installed (checks install lazily / degrade)"
command -v strace >/dev/null || echo "warning: strace missing (C08/C16 syscall-level parts become inconclusive)"
/venv/bin/python -c "import sys; sys.path.insert(0,'.'); from vlib import bootstrap; bootstrap.init(); print('setup ok', bootstrap.REPO)"
