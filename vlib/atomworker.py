"""Subprocess writer for C08 (runs under strace).  argv: <caller> <dest> <size> <seedchar>
Emits write(2,"@@MARK@@") immediately before the atomic write so the tracer can index the system calls
that belong to the write.  Exit 0 = the call returned normally, 3 = it raised (type on stdout)."""
import os
import sys


def new_content(size, ch):
    return (ch.encode() * 7 + b"\n") * (size // 8) + ch.encode() * (size % 8)


def main():
    caller, dest, size, ch = sys.argv[1], sys.argv[2], int(sys.argv[3]), sys.argv[4]
    from vlib import bootstrap

    bootstrap.init()
    import clematis.io.atomic as A

    data = new_content(size, ch)
    os.write(2, b"@@MARK@@")
    try:
        if caller == "bytes":
            A.atomic_write_bytes(dest, data)
        elif caller == "text":
            A.atomic_write_text(dest, data.decode())
        elif caller == "json":
            A.atomic_write_json(dest, {"k": data.decode()})
        elif caller == "rewrite":
            os.environ["CLEMATIS_LOG_DIR"] = os.path.dirname(dest)
            from clematis.io.log import rewrite_jsonl

            rewrite_jsonl(os.path.basename(dest), [{"i": i, "b": ch * 10} for i in range(max(1, size // 24))])
        elif caller == "rewrite-extend":
            # compaction of a log that grew: the previous content is a byte prefix of the new one
            os.environ["CLEMATIS_LOG_DIR"] = os.path.dirname(dest)
            from clematis.io.log import rewrite_jsonl

            rewrite_jsonl(os.path.basename(dest), [{"i": i, "b": "x" * 10} for i in range(max(1, size // 24) + (40 if ch == "n" else 0))])
        os.write(2, b"@@DONE@@")
        print("ok")
        return 0
    except Exception as ex:
        os.write(2, b"@@RAISED@@")
        print("raised", type(ex).__name__, getattr(ex, "errno", None))
        return 3


if __name__ == "__main__":
    sys.exit(main())
