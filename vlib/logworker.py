"""Subprocess writer for C16: appends stamped records through the repository's own append_jsonl.
stdin JSON: {"log_dir","stream","writer","n","sizes":[...],"seed"}; prints {"written": n}."""
import json
import os
import random
import sys


def payload(writer, seq, size, rng):
    alphabet = ["a", "é", "中", " ", "\\", '"', " ", "x"]
    body = "".join(rng.choice(alphabet) for _ in range(min(size, 64)))
    if size > 64:
        body = body * (size // 64)
    return {"w": writer, "seq": seq, "turn": seq, "agent": writer, "ms": 1.5, "now": "t", "body": body}


def main():
    job = json.loads(sys.stdin.readline())
    os.environ["CLEMATIS_LOG_DIR"] = job["log_dir"]
    if job.get("ci"):
        os.environ["CI"] = "true"
    from vlib import bootstrap

    bootstrap.init()
    os.environ["CLEMATIS_LOG_DIR"] = job["log_dir"]
    if job.get("ci"):
        os.environ["CI"] = "true"
    from clematis.io.log import append_jsonl

    if job.get("serve"):
        # command mode: one JSON command per stdin line ({"append": record} | {"quit": 1}); one reply line per command.
        # The harness drives several such writers step by step, so every append returns before the next one is issued.
        print(json.dumps({"ready": 1}), flush=True)
        for line in sys.stdin:
            cmd = json.loads(line)
            if "append" in cmd:
                try:
                    append_jsonl(job["stream"], cmd["append"])
                    print(json.dumps({"ok": 1}), flush=True)
                except Exception as ex:
                    print(json.dumps({"exc": f"{type(ex).__name__}: {ex}"[:200]}), flush=True)
            else:
                break
        return
    rng = random.Random(job["seed"])
    for i in range(job["n"]):
        append_jsonl(job["stream"], payload(job["writer"], i, rng.choice(job["sizes"]), rng))
    print(json.dumps({"written": job["n"]}))


if __name__ == "__main__":
    main()
