"""Subprocess writer for C16: appends stamped records through the repository's own append_jsonl.
stdin JSON: {"log_dir","stream","writer","n","sizes":[...],"seed"}; prints {"written": n}."""
import json
import os
import random
import sys


def payload(writer, seq, size, rng):
    alphabet = ["a", "é", "中", " ", "\\", '"', " ", "x"]
    body = "".join(rng.choice(alphabet) for _ in range(min(size, 64)))
    if size > 64:
        body = body * (size // 64)
    return {"w": writer, "seq": seq, "turn": seq, "agent": writer, "ms": 1.5, "now": "t", "body": body}


def main():
    job = json.load(sys.stdin)
    os.environ["CLEMATIS_LOG_DIR"] = job["log_dir"]
    if job.get("ci"):
        os.environ["CI"] = "true"
    from vlib import bootstrap

    bootstrap.init()
    os.environ["CLEMATIS_LOG_DIR"] = job["log_dir"]
    if job.get("ci"):
        os.environ["CI"] = "true"
    from clematis.io.log import append_jsonl

    rng = random.Random(job["seed"])
    for i in range(job["n"]):
        append_jsonl(job["stream"], payload(job["writer"], i, rng.choice(job["sizes"]), rng))
    print(json.dumps({"written": job["n"]}))


if __name__ == "__main__":
    main()
