"""Random configurations drawn from the validator-accepted space, with the feature gates as explicit
switches (shared by the turn-level checks C01 / C02 / C19 / C20)."""
from __future__ import annotations

import random
from typing import Dict, Optional


def base_cfg(rng: random.Random) -> dict:
    cfg: Dict[str, dict] = {"t1": {}, "t2": {}, "t3": {}, "t4": {}}
    t1 = cfg["t1"]
    if rng.random() < 0.5:
        t1["decay"] = rng.choice([{"mode": "exp_floor", "rate": 0.6, "floor": 0.05}, {"mode": "attn_quad", "alpha": 0.8}, {"mode": "exp_floor", "rate": 0.9, "floor": 0.0}])
    for k, vals in (("queue_budget", [1, 3, 10000]), ("iter_cap", [1, 2, 50]), ("node_budget", [0.5, 1.5, 100.0]), ("radius_cap", [1, 2, 4])):
        if rng.random() < 0.4:
            t1[k] = rng.choice(vals)
    t1["cache"] = {"enabled": rng.random() < 0.7, **rng.choice([{}, {"ttl_s": 0}, {"ttl_s": 0}, {"ttl_s": 300}])}  # ttl 0 = entries never expire
    t2 = cfg["t2"]
    t2["k_retrieval"] = rng.choice([1, 2, 4, 8, 64])
    t2["sim_threshold"] = rng.choice([-1.0, 0.0, 0.0, 0.1, 0.3])
    if rng.random() < 0.5:
        t2["tiers"] = rng.sample(["exact_semantic", "cluster_semantic", "archive"], rng.randint(1, 3))
        if rng.random() < 0.25:
            t2["tiers"] = t2["tiers"] + [rng.choice(t2["tiers"])]  # a tier listed twice is accepted by the validator
    t2["ranking"] = rng.choice([{"alpha_sim": 0.75, "beta_recency": 0.2, "gamma_importance": 0.05}, {"alpha_sim": 1.0, "beta_recency": 0.0, "gamma_importance": 0.0},
                                {"alpha_sim": 0.0, "beta_recency": 1.0, "gamma_importance": 1.0}])
    t2["owner_scope"] = rng.choice(["any", "agent", "world"])
    t2["exact_recent_days"] = rng.choice([0, 30, 365])
    if rng.random() < 0.4:
        t2["residual_cap_per_turn"] = rng.choice([0, 1, 32])
    t2["cache"] = {"enabled": rng.random() < 0.7, **rng.choice([{}, {}, {"ttl_s": 0}, {"ttl_s": 300}])}
    t3 = cfg["t3"]
    t3["tokens"] = rng.choice([1, 4, 16, 256])
    t3["max_ops_per_turn"] = rng.choice([1, 2, 3, 8])
    t3["max_rag_loops"] = rng.choice([0, 1])
    if rng.random() < 0.3:
        t3["dialogue"] = {"template": rng.choice(["{labels} -> {intent}", "{style_prefix}| {snippets} {labels}", "{snippets_text}; next {intent}"]), "include_top_k_snippets": rng.choice([0, 1, 3])}
    t4 = cfg["t4"]
    t4["delta_norm_cap_l2"] = rng.choice([0.2, 1.5, 100.0])
    t4["novelty_cap_per_node"] = rng.choice([0.1, 0.3, 1.0])
    t4["churn_cap_edges"] = rng.choice([0, 1, 4, 64])
    t4["snapshot_every_n_turns"] = rng.choice([1, 1, 2, 3])
    t4["cache_bust_mode"] = rng.choice(["on-apply", "none"])
    t4["cache"] = {"enabled": rng.random() < 0.7, "namespaces": rng.choice([["t2:semantic"], []]), **rng.choice([{}, {}, {"ttl_sec": 0}, {"ttl_sec": 600}])}
    if rng.random() < 0.3:
        t4["cooldowns"] = {"EditGraph": rng.choice([0, 1, 3])}
    return cfg


GATES = ["gel", "hybrid", "quality", "reflection", "scheduler", "perf", "parallel"]


def gate_cfg(rng: random.Random, gate: str, on: bool = True) -> dict:
    """Sub-config that switches one feature on (on=True) with in-range random settings."""
    if gate == "gel":
        return {"graph": {"enabled": on, "coactivation_threshold": rng.choice([0.0, 0.2]), "observe_top_k": rng.choice([2, 8, 64]), "pair_cap_per_obs": rng.choice([1, 16, 2048]),
                          "update": {"mode": rng.choice(["additive", "proportional"]), "alpha": rng.choice([0.02, 0.3]),
                                     **rng.choice([{}, {}, {"clamp_min": -0.5, "clamp_max": 0.5}, {"clamp_min": 0.0, "clamp_max": 0.3}, {"clamp_min": -1.0, "clamp_max": 0.1}])},
                          "decay": {"half_life_turns": rng.choice([1, 10, 200]), "floor": rng.choice([0.0, 0.01, 0.1])},
                          "merge": {"enabled": True, "min_size": 2, "min_avg_w": 0.0, "max_diameter": 4, "cap_per_turn": 2},
                          "split": {"enabled": True, "weak_edge_thresh": 0.0, "min_component_size": 2, "cap_per_turn": 2},
                          "promotion": {"enabled": True, "label_mode": rng.choice(["lexmin", "concat_k"]), "attach_weight": 0.5, "cap_per_turn": 1}}}
    if gate == "hybrid":
        return {"t2": {"hybrid": {"enabled": on, "use_graph": True, "anchor_top_m": rng.choice([1, 2, 8]), "walk_hops": rng.choice([1, 2]), "edge_threshold": rng.choice([0.0, 0.1]),
                                  "lambda_graph": rng.choice([0.25, 1.0]), "damping": 0.5, "degree_norm": rng.choice(["none", "invdeg"]), "max_bonus": rng.choice([0.5, 10.0]), "k_max": rng.choice([2, 128])}}}
    if gate == "quality":
        q = {"enabled": on, "shadow": rng.random() < 0.5, "fusion": {"alpha_semantic": rng.choice([0.0, 0.6, 1.0])},
             "lexical": {"bm25_k1": 1.2, "bm25_b": 0.75, "stopwords": rng.choice(["none", "en-basic"])}}
        if rng.random() < 0.7:
            q["mmr"] = {"enabled": True, "lambda": rng.choice([0.0, 0.5, 1.0]), "k": rng.choice([1, 2, 8])}
        return {"t2": {"quality": q}}
    if gate == "reflection":
        return {"t3": {"allow_reflection": on, "reflection": {"backend": "rulebased", "summary_tokens": rng.choice([0, 4, 128]), "embed": rng.random() < 0.7, "log": True,
                                                              "topk_snippets": rng.choice([0, 1, 3])}},
                "scheduler": {"budgets": {"time_ms_reflection": 10 ** 8, "ops_reflection": rng.choice([0, 1, 5])}}}
    if gate == "scheduler":
        return {"scheduler": {"enabled": on, "policy": rng.choice(["round_robin", "fair_queue"]), "quantum_ms": 10 ** 8,
                              "budgets": {"t1_pops": rng.choice([None, 0, 2, 100]), "t1_iters": rng.choice([None, 0, 1, 50]), "t2_k": rng.choice([None, 0, 1, 64]),
                                          "t3_ops": rng.choice([None, 0, 1, 3]), "wall_ms": 10 ** 9,
                                          **rng.choice([{}, {"ops_reflection": rng.choice([0, 1, 5])}, {"time_ms_reflection": 10 ** 8}])},
                              "fairness": {"max_consecutive_turns": rng.choice([1, 2]), "aging_ms": rng.choice([0, 200])}}}
    if gate == "perf":
        p = {"enabled": on, "metrics": {"report_memory": rng.random() < 0.7}}
        if rng.random() < 0.6:
            p["t1"] = {"caps": {"frontier": rng.choice([1, 4, 100]), "visited": rng.choice([1, 4, 100])}, "dedupe_window": rng.choice([1, 8]), "cache": {"max_entries": 8, "max_bytes": rng.choice([0, 100, 100000])}}
        if rng.random() < 0.6:
            p["t2"] = {"cache": {"max_entries": 8, "max_bytes": rng.choice([0, 1000, 1000000])}, "embed_store_dtype": rng.choice(["fp32", "fp16"]), "precompute_norms": rng.random() < 0.5}
        if rng.random() < 0.4:
            p["snapshots"] = {"compression": rng.choice(["none", "zstd"]), "level": rng.choice([1, 3]), "delta_mode": rng.random() < 0.5, "every_n_turns": rng.choice([1, 2])}
        return {"perf": p}
    if gate == "parallel":
        return {"perf": {"parallel": {"enabled": on, "t1": True, "t2": False, "agents": rng.random() < 0.3, "max_workers": rng.choice([2, 4, 8])}}}
    raise KeyError(gate)


def merge(a: dict, b: dict) -> dict:
    import copy
    out = copy.deepcopy(a)
    for k, v in (b or {}).items():
        if isinstance(v, dict) and isinstance(out.get(k), dict):
            out[k] = merge(out[k], v)
        else:
            out[k] = copy.deepcopy(v)
    return out


def gen_cfg(rng: random.Random, gates_on: Optional[list] = None) -> dict:
    cfg = base_cfg(rng)
    if gates_on is None:
        gates_on = [g for g in GATES if rng.random() < 0.3]
    for g in gates_on:
        cfg = merge(cfg, gate_cfg(rng, g, True))
    return cfg


def gen_turns(rng: random.Random, world: dict, n=(3, 8), agents=("A", "B", "C"), plans: bool = True, base_ms: int = 1_700_000_000_000) -> list:
    labs = [x[1] for g in world["graphs"].values() for x in g["nodes"] if x[1]] or ["hello"]
    ags = list(agents)[: rng.randint(1, len(agents))]
    turns = []
    use_plans = plans and rng.random() < 0.5
    for i in range(rng.randint(*n)):
        nlab = rng.randint(1, 3) if rng.random() < 0.75 else len(labs)  # sometimes a text naming every label (wide seeding)
        txt = " ".join(rng.sample(labs, min(len(labs), nlab))) + (f" q{i}" if rng.random() < 0.7 else "")
        t = {"agent": rng.choice(ags), "text": txt, "turn": i + 1, "now_ms": base_ms + i * rng.choice([0, 1000, 86400000])}
        if use_plans:
            nd = rng.choice([0, 1, 2, 4])
            t["plan"] = {"ops": [{"kind": "Speak"}] + ([{"kind": "EditGraph"}] if nd else []),
                         "deltas": [["node", f"n:{rng.choice('abcd')}", "weight", rng.choice([0.1, -0.2, 0.3, 0.05]), 1] for _ in range(nd)],
                         "reflection": rng.random() < 0.5}
        turns.append(t)
    return turns
