"""Three-valued verdicts, known findings, replay files and evidence.

A check creates one Session, feeds it cases (`case`), monitor observations (`count`),
violations (`violation`, keyed by *mechanism*), and calls `finish()`, which writes
evidence/<id>.json, prints VIOLATION / KNOWN-FINDING / INCONCLUSIVE lines and exits
0 (held on what was observed), 1 (violated) or 2 (inconclusive).

Worker processes use `Session.worker()` and return `export()`; the parent `merge()`s.
"""
from __future__ import annotations

import hashlib
import json
import math
import os
import sys
import time
from typing import Any, Dict, List, Optional

VERIF = os.path.dirname(os.path.dirname(os.path.abspath(__file__)))
KNOWN_PATH = os.path.join(VERIF, "known_findings.json")
# scratch runs against patched copies (selftest) redirect evidence/replays so that the
# committed evidence of the real tree is not clobbered
OUT = os.environ.get("VERIF_OUT") or VERIF
MAX_SAMPLES = 6
MAX_VIOL_PER_MECH = 5


def jsonable(o: Any, depth: int = 0) -> Any:
    """Lossy-but-faithful conversion of arbitrary objects for replay / evidence files."""
    if depth > 12:
        return repr(o)[:200]
    if o is None or isinstance(o, (bool, int, str)):
        return o
    if isinstance(o, float):
        if math.isnan(o):
            return {"__float__": "nan"}
        if math.isinf(o):
            return {"__float__": "inf" if o > 0 else "-inf"}
        return o
    if isinstance(o, bytes):
        return {"__bytes__": o[:256].hex(), "len": len(o)}
    if isinstance(o, dict):
        return {str(k) if not isinstance(k, str) else k: jsonable(v, depth + 1) for k, v in o.items()}
    if isinstance(o, (list, tuple)):
        return [jsonable(v, depth + 1) for v in o]
    if isinstance(o, (set, frozenset)):
        return sorted((jsonable(v, depth + 1) for v in o), key=repr)
    try:
        import numpy as np

        if isinstance(o, np.ndarray):
            return {"__nd__": [float(x) for x in o.ravel()[:8]], "shape": list(o.shape)}
        if isinstance(o, np.generic):
            return jsonable(o.item(), depth + 1)
    except Exception:
        pass
    if hasattr(o, "__dict__"):
        return {"__obj__": type(o).__name__, **{k: jsonable(v, depth + 1) for k, v in vars(o).items()}}
    return repr(o)[:300]


def _shrink(o: Any, depth: int = 0) -> Any:
    if isinstance(o, str):
        return o if len(o) <= 160 else o[:160] + f"...(+{len(o) - 160} chars)"
    if isinstance(o, list):
        out = [_shrink(v, depth + 1) for v in o[:6]]
        if len(o) > 6:
            out.append(f"...(+{len(o) - 6} items)")
        return out
    if isinstance(o, dict):
        items = list(o.items())
        out = {k: _shrink(v, depth + 1) for k, v in items[:14]}
        if len(items) > 14:
            out["..."] = f"+{len(items) - 14} keys"
        return out
    return o


def unjson(o: Any) -> Any:
    """Inverse of jsonable for the float / bytes markers (used by replays)."""
    if isinstance(o, dict):
        if set(o.keys()) == {"__float__"}:
            return float(o["__float__"])
        return {k: unjson(v) for k, v in o.items()}
    if isinstance(o, list):
        return [unjson(v) for v in o]
    return o


def chash(o: Any) -> str:
    return hashlib.sha256(
        json.dumps(jsonable(o), sort_keys=True, ensure_ascii=True, default=repr).encode()
    ).hexdigest()[:16]


def load_known(pid: str) -> Dict[str, dict]:
    try:
        data = json.load(open(KNOWN_PATH, encoding="utf-8"))
    except FileNotFoundError:
        return {}
    out = {}
    for e in data.get("findings", []):
        if e.get("property") == pid and e.get("status") == "open":
            out[e["key"]] = e
    return out


class Session:
    def __init__(self, pid: str, tier: str = "quick", seed: int = 0, level: str = "exploration",
                 rule: str = "", worker: bool = False):
        self.pid = pid
        self.tier = tier
        self.seed = int(seed)
        self.level = level
        self.rule = rule
        self.is_worker = worker
        self.t0 = time.time()
        self.evaluations = 0
        self.nontrivial: set = set()
        self.samples: List[Any] = []
        self.counters: Dict[str, int] = {}
        self.sets: Dict[str, set] = {}
        self.violations: Dict[str, List[dict]] = {}
        self.viol_counts: Dict[str, int] = {}
        self.inconclusive: List[str] = []
        self.assumptions: List[str] = []
        self.requirements: List[tuple] = []
        self.extra: Dict[str, Any] = {}
        self.exhaustive: Optional[bool] = None
        self.replay_mode = False

    # ---- construction helpers -------------------------------------------------
    @classmethod
    def worker(cls, pid: str, tier: str = "quick", seed: int = 0) -> "Session":
        return cls(pid, tier, seed, worker=True)

    # ---- recording ---------------------------------------------------------------
    def case(self, key: Any, nontrivial: bool = True, sample: Any = None) -> None:
        self.evaluations += 1
        if nontrivial:
            self.nontrivial.add(key if isinstance(key, str) and len(key) <= 16 else chash(key))
        if sample is not None and len(self.samples) < MAX_SAMPLES:
            self.samples.append(jsonable(sample))

    def sample(self, obj: Any) -> None:
        """Keep a few actual cases (shrunk for readability) for the evidence file."""
        if len(self.samples) < MAX_SAMPLES:
            self.samples.append(_shrink(jsonable(obj)))

    def count(self, name: str, n: int = 1) -> None:
        self.counters[name] = self.counters.get(name, 0) + int(n)

    def seen(self, name: str, item: Any) -> None:
        s = self.sets.setdefault(name, set())
        if len(s) < 200000:
            s.add(item if isinstance(item, (str, int)) else chash(item))

    def violation(self, mechanism: str, case: Any, detail: Any = None) -> None:
        self.viol_counts[mechanism] = self.viol_counts.get(mechanism, 0) + 1
        lst = self.violations.setdefault(mechanism, [])
        if len(lst) < MAX_VIOL_PER_MECH:
            lst.append({"case": jsonable(case), "detail": jsonable(detail)})

    def inconclusive_because(self, reason: str) -> None:
        if reason not in self.inconclusive:
            self.inconclusive.append(reason)

    def require(self, counter: str, minimum: int = 1) -> None:
        """At finish, counter < minimum makes the run inconclusive (monitor not reached)."""
        self.requirements.append((counter, minimum))

    def assume(self, text: str) -> None:
        if text not in self.assumptions:
            self.assumptions.append(text)

    # ---- worker transport ----------------------------------------------------------
    def export(self) -> dict:
        return {
            "evaluations": self.evaluations,
            "nontrivial": list(self.nontrivial),
            "samples": self.samples,
            "counters": self.counters,
            "sets": {k: list(v) for k, v in self.sets.items()},
            "violations": self.violations,
            "viol_counts": self.viol_counts,
            "inconclusive": self.inconclusive,
            "assumptions": self.assumptions,
        }

    def merge(self, d: dict) -> None:
        self.evaluations += d["evaluations"]
        self.nontrivial.update(d["nontrivial"])
        for s in d["samples"]:
            if len(self.samples) < MAX_SAMPLES:
                self.samples.append(s)
        for k, v in d["counters"].items():
            self.counters[k] = self.counters.get(k, 0) + v
        for k, v in d["sets"].items():
            self.sets.setdefault(k, set()).update(v)
        for m, lst in d["violations"].items():
            cur = self.violations.setdefault(m, [])
            for x in lst:
                if len(cur) < MAX_VIOL_PER_MECH:
                    cur.append(x)
        for m, n in d["viol_counts"].items():
            self.viol_counts[m] = self.viol_counts.get(m, 0) + n
        for r in d["inconclusive"]:
            self.inconclusive_because(r)
        for a in d["assumptions"]:
            self.assume(a)

    # ---- finishing -------------------------------------------------------------------
    def _write_replay(self, mech: str, v: dict) -> str:
        d = os.path.join(OUT, "replays", self.pid)
        os.makedirs(d, exist_ok=True)
        body = {"property": self.pid, "mechanism": mech, "tier": self.tier, "seed": self.seed,
                "case": v["case"], "detail": v["detail"]}
        path = os.path.join(d, f"{mech[:40].replace('/', '_').replace(' ', '_')}-{chash(v['case'])}.json")
        with open(path, "w", encoding="utf-8") as f:
            json.dump(body, f, indent=1, sort_keys=True, default=repr)
        return path

    def finish(self, exit_process: bool = True) -> int:
        known = load_known(self.pid)
        for name, minimum in self.requirements:
            if self.counters.get(name, 0) < minimum:
                self.inconclusive_because(f"monitor '{name}' observed {self.counters.get(name, 0)} < {minimum} events")
        if self.evaluations == 0 and not self.replay_mode:
            self.inconclusive_because("no case was evaluated")
        new_mechs = [m for m in self.viol_counts if m not in known]
        known_hit = {m: n for m, n in self.viol_counts.items() if m in known}
        lines = []
        replays = []
        for m in sorted(new_mechs):
            for v in self.violations.get(m, [])[:3]:
                p = self._write_replay(m, v)
                replays.append(p)
                lines.append(f"VIOLATION property={self.pid} replay={p}")
                lines.append(f"  mechanism={m} cases={self.viol_counts[m]} detail={json.dumps(v['detail'], default=repr)[:600]}")
        for k, e in sorted(known.items()):
            n = known_hit.get(k, 0)
            lines.append(f"KNOWN-FINDING: property={self.pid} {e.get('what', k)} [key={k}; reproduced in {n} case(s) this run]")
        for r in self.inconclusive:
            lines.append(f"INCONCLUSIVE property={self.pid} reason={r}")
        if new_mechs:
            code = 1
        elif self.inconclusive:
            code = 2
        else:
            code = 0
        if not self.is_worker:
            if not self.replay_mode:
                self._write_evidence(known_hit, new_mechs)
            for ln in lines:
                print(ln)
            verdict = {0: "HELD-ON-OBSERVED", 1: "VIOLATED", 2: "INCONCLUSIVE"}[code]
            print(f"[{self.pid}] {verdict} tier={self.tier} seed={self.seed} evaluations={self.evaluations} "
                  f"distinct_nontrivial={len(self.nontrivial)} wall_s={time.time() - self.t0:.1f}")
            keys = sorted(self.counters)
            if keys:
                print(f"[{self.pid}] observed: " + ", ".join(f"{k}={self.counters[k]}" for k in keys))
            sys.stdout.flush()
            if exit_process:
                sys.exit(code)
        return code

    def _write_evidence(self, known_hit: dict, new_mechs: list) -> None:
        cov: Dict[str, Any] = {
            "evaluations": int(self.evaluations),
            "distinct_nontrivial": int(len(self.nontrivial)),
            "rule": self.rule,
            "samples": self.samples[:MAX_SAMPLES] or ["<none>"],
            "observed": dict(sorted(self.counters.items())),
            "distinct_observed": {k: len(v) for k, v in sorted(self.sets.items())},
            "known_findings_reproduced": known_hit,
            "new_violation_mechanisms": sorted(new_mechs),
            "inconclusive": list(self.inconclusive),
        }
        if self.exhaustive is not None:
            cov["exhaustive"] = bool(self.exhaustive)
        cov.update(self.extra)
        ev = {
            "property_id": self.pid,
            "tier": self.tier if self.tier in ("quick", "thorough") else "quick",
            "seed": self.seed,
            "level": self.level,
            "coverage": cov,
            "assumptions": self.assumptions,
            "wall_s": round(time.time() - self.t0, 3),
            "violations": int(sum(self.viol_counts.get(m, 0) for m in new_mechs)),
        }
        os.makedirs(os.path.join(OUT, "evidence"), exist_ok=True)
        path = os.path.join(OUT, "evidence", f"{self.pid}.json")
        tmp = path + ".tmp"
        with open(tmp, "w", encoding="utf-8") as f:
            json.dump(ev, f, indent=1, sort_keys=True, default=repr)
            f.write("\n")
        os.replace(tmp, path)
