"""Store / index doubles and JSON-able world specs used by the turn-level checks."""
from __future__ import annotations

import copy
import random
from typing import Any, Dict, List, Optional

from .harness import build_store, build_index, gen_graph, VOCAB, NOW_MS


def make_store_class():
    from clematis.graph.store import InMemoryGraphStore

    class WorldStore(InMemoryGraphStore):
        """Real in-memory graph store + additive weight map `.w` keyed (kind, id, attr) (the shape the
        repository's integration tests use) + call log + fault script.  `apply_deltas` is
        all-or-nothing: a scripted failure raises *before* anything is applied."""

        def __init__(self, wmin=-1.0, wmax=1.0):
            super().__init__()
            self.w: Dict[tuple, float] = {}
            self.wmin, self.wmax = float(wmin), float(wmax)
            self.calls: List[dict] = []     # every apply_deltas call: {"gid", "n", "keys", "ok", "ids"}
            self.script: List[Any] = []     # per-call outcome: None = succeed, Exception instance/class = raise
            self.fail_keys: set = set()     # single-delta calls whose key is listed raise
            self.fail_all = None            # exception class raised by every call
            self.applied_count: Dict[tuple, int] = {}

        def apply_deltas(self, gid, deltas):
            deltas = list(deltas)
            if deltas and isinstance(deltas[0], dict):
                return super().apply_deltas(gid, deltas)
            keys = [(d.target_kind, d.target_id, d.attr) for d in deltas]
            rec = {"gid": gid, "n": len(deltas), "keys": keys, "ok": False, "ids": [id(d) for d in deltas],
                   "deltas": [float(d.delta) for d in deltas]}
            self.calls.append(rec)
            exc = None
            if self.fail_all is not None:
                exc = self.fail_all
            elif self.script:
                exc = self.script.pop(0)
            if exc is None and len(deltas) == 1 and keys[0] in self.fail_keys:
                exc = RuntimeError
            if exc is not None:
                raise (exc("scripted store failure") if isinstance(exc, type) else exc)
            edits = clamps = 0
            for d, k in zip(deltas, keys):
                old = self.w.get(k, 0.0)
                prop = old + float(d.delta)
                cl = max(self.wmin, min(self.wmax, prop))
                if cl != prop:
                    clamps += 1
                if cl != old:
                    self.w[k] = cl
                    edits += 1
                self.applied_count[k] = self.applied_count.get(k, 0) + 1
            rec["ok"] = True
            # how a store words its report is its own business: some return nothing at all
            shape = getattr(self, "reply", None)
            if shape == "empty":
                return {}
            if shape == "none":
                return None
            if shape == "clamped-only":
                return {"clamped": clamps}
            if shape == "int":
                return edits
            return {"edits": edits, "clamps": clamps}

    return WorldStore


def build_world_store(graphs: Dict[str, dict], weights: Optional[list] = None, wmin=-1.0, wmax=1.0):
    from clematis.engine.types import Node, Edge

    WS = make_store_class()
    st = WS(wmin, wmax)
    for gid, g in graphs.items():
        st.ensure(gid)
        nodes = []
        for n in g.get("nodes", []):
            tags = n[2] if len(n) > 2 else None
            nodes.append(Node(id=n[0], label=n[1], attrs=({"tags": list(tags)} if tags is not None else {})))
        if nodes:
            st.upsert_nodes(gid, nodes)
        edges = [Edge(id=e[0], src=e[1], dst=e[2], weight=e[3], rel=e[4]) for e in g.get("edges", [])]
        if edges:
            st.upsert_edges(gid, edges)
    for k, tid, attr, v in (weights or []):
        st.w[(k, tid, attr)] = float(v)
    return st


def gen_world(rng: random.Random, ngraphs=(1, 3), neps=(0, 16), agents=("A", "B"), gel=True) -> dict:
    graphs = {}
    for gi in range(rng.randint(*ngraphs)):
        graphs[f"g{gi}"] = gen_graph(rng, nmax=8, emax=10, weights=[0.8, 0.5, -0.7, 1.0, 0.3, 0.9])
    eps = []
    n = rng.randint(*neps)
    import datetime as dtm
    for i in range(n):
        txt = " ".join(rng.choice(VOCAB) for _ in range(rng.randint(1, 5)))
        days = rng.choice([0, 1, 5, 29, 30, 31, 100, 400])
        ts = (dtm.datetime.fromtimestamp(NOW_MS / 1000, tz=dtm.timezone.utc) - dtm.timedelta(days=days)).isoformat().replace("+00:00", "Z")
        e = {"id": f"ep{i:02d}", "owner": rng.choice(list(agents) + ["world"]), "text": txt, "ts": ts, "vec": "enc",
             "aux": {"importance": rng.choice([0.5, 0.0, 1.0, 0.25])}}
        if rng.random() < 0.4:
            e["aux"]["cluster_id"] = rng.choice(["c1", "c2", "c3"])
        eps.append(e)
    gel_edges = []
    if gel and eps:
        ids = [e["id"] for e in eps]
        for _ in range(rng.randint(0, 8)):
            if len(ids) >= 2:
                a, b = rng.sample(ids, 2)
                gel_edges.append([a, b, rng.choice([0.9, 0.5, 0.2, 0.7])])
    weights = [["node", f"n:{rng.choice(['a', 'b', 'c', 'd'])}", "weight", rng.choice([0.1, -0.3, 0.9])] for _ in range(rng.randint(0, 3))]
    return {"graphs": graphs, "eps": eps, "gel": gel_edges, "weights": weights}


def build_state(world: dict, dim: int = 32, boot_loaded: bool = True) -> dict:
    st = build_world_store(world.get("graphs", {}), world.get("weights"))
    state: Dict[str, Any] = {"store": st, "active_graphs": list(world.get("graphs", {})), "version_etag": "0"}
    state["mem_index"] = build_index(world.get("eps", []), dim=dim)
    if boot_loaded:
        state["_boot_loaded"] = True
    edges = {}
    for a, b, w in world.get("gel") or []:
        k = f"{a}→{b}" if a <= b else f"{b}→{a}"
        edges[k] = {"id": k, "src": min(a, b), "dst": max(a, b), "weight": float(w), "rel": "coact", "attrs": {}}
    if world.get("gel") is not None:
        state["graph"] = {"nodes": {}, "edges": edges,
                          "meta": {"schema": "v1.1", "merges": [], "splits": [], "promotions": [], "concept_nodes_count": 0, "edges_count": len(edges)}}
    return state


def state_fingerprint(state: dict) -> dict:
    """Deep, comparable view of the engine state (cache manager contents excluded)."""
    from .harness import store_fingerprint
    import numpy as np

    st = state.get("store")
    out: Dict[str, Any] = {"version": state.get("version_etag")}
    if st is not None:
        out["store"] = store_fingerprint(st) if hasattr(st, "_graphs") else None
        out["w"] = sorted((list(k), repr(v)) for k, v in getattr(st, "w", {}).items())
    idx = state.get("mem_index")
    if idx is not None and hasattr(idx, "_eps"):
        out["mem"] = [(e.get("id"), e.get("owner"), e.get("ts"), e.get("text"),
                       None if e.get("vec_full") is None else np.asarray(e["vec_full"]).tobytes().hex()[:32]) for e in idx._eps]
        out["mem_ver"] = idx.index_version()
    idx2 = state.get("memory_index")
    if idx2 is not None and hasattr(idx2, "_eps"):
        out["mem2"] = [(e.get("id"), e.get("owner"), e.get("ts"), e.get("text")) for e in idx2._eps]
    g = state.get("graph")
    if isinstance(g, dict):
        out["gel"] = {"nodes": sorted((str(k), repr(v)) for k, v in (g.get("nodes") or {}).items()),
                      "edges": sorted((str(k), repr(sorted(v.items())) if isinstance(v, dict) else repr(v)) for k, v in (g.get("edges") or {}).items()),
                      "meta": repr(sorted((g.get("meta") or {}).items()))}
    out["keys"] = sorted(k for k in state.keys() if k not in ("_cache_mgr", "logs", "llm_adapter"))
    return out
