"""Shared harness for driving the real Clematis3 code: attribute-dict configs, ctx/state
builders from JSON-able specs (so every case can be written to a replay file), store
fingerprints, log-directory capture, virtual clocks and call-through hooks.

Nothing here edits /repo; everything attaches through the engine's own override points."""
from __future__ import annotations

import contextlib
import copy
import hashlib
import json
import math
import os
import shutil
import sys
import tempfile
from types import SimpleNamespace as NS
from typing import Any, Dict, Iterable, List, Optional

NOW_MS = 1_700_000_000_000  # 2023-11-14T22:13:20Z
VOCAB = ["hello", "world", "reply", "cat", "dog", "sun", "moon", "Tree", "río", "alpha",
         "beta", "gamma", "stone", "river", "cloud", "a", "Straße", "naïve", "ship", "lamp"]
RELS = ["supports", "associates", "contradicts", "weird"]


class AD(dict):
    """dict with attribute access (the shape the integration tests use for cfg/config)."""

    def __getattr__(self, k):
        try:
            return self[k]
        except KeyError as e:
            raise AttributeError(k) from e

    def __setattr__(self, k, v):
        self[k] = v

    def __deepcopy__(self, memo):
        return AD({k: copy.deepcopy(v, memo) for k, v in self.items()})


def to_ad(o):
    if isinstance(o, dict):
        return AD({k: to_ad(v) for k, v in o.items()})
    if isinstance(o, list):
        return [to_ad(v) for v in o]
    return o


def deep_merge(a: dict, b: dict) -> dict:
    out = copy.deepcopy(a)
    for k, v in (b or {}).items():
        if isinstance(v, dict) and isinstance(out.get(k), dict):
            out[k] = deep_merge(out[k], v)
        else:
            out[k] = copy.deepcopy(v)
    return out


def validated(over: Optional[dict] = None) -> dict:
    from configs.validate import validate_config

    return validate_config(copy.deepcopy(over or {}))


def mk_cfg(over: Optional[dict] = None, *, decay_default: bool = True) -> AD:
    """Validated config as attribute dict.  The validator does not materialise t1.decay;
    the harness supplies the documented default unless the case is about that."""
    cfg = validated(over)
    if decay_default:
        cfg.setdefault("t1", {}).setdefault("decay", {"mode": "exp_floor", "rate": 0.6, "floor": 0.05})
    return to_ad(cfg)


def iso_from_ms(ms: int) -> str:
    from clematis.engine.orchestrator.core import _iso_from_ms

    return _iso_from_ms(ms)


def mk_ctx(cfg, turn=1, agent="A", now_ms: Optional[int] = NOW_MS, now: Any = "auto", **extra):
    if now == "auto":
        now = iso_from_ms(now_ms) if now_ms is not None else None
    return NS(turn_id=turn, agent_id=agent, now=now, now_ms=now_ms, cfg=cfg, config=cfg, **extra)


# ---------------------------------------------------------------------------------------
# worlds
# ---------------------------------------------------------------------------------------

def build_store(graphs: Dict[str, dict]):
    """graphs: {gid: {"nodes": [[id,label,tags|None],...], "edges": [[eid,src,dst,w,rel],...]}}"""
    from clematis.graph.store import InMemoryGraphStore
    from clematis.engine.types import Node, Edge

    st = InMemoryGraphStore()
    for gid, g in graphs.items():
        st.ensure(gid)
        nodes = []
        for n in g.get("nodes", []):
            nid, lab = n[0], n[1]
            tags = n[2] if len(n) > 2 else None
            attrs = {"tags": list(tags)} if tags is not None else {}
            nodes.append(Node(id=nid, label=lab, attrs=attrs))
        if nodes:
            st.upsert_nodes(gid, nodes)
        edges = [Edge(id=e[0], src=e[1], dst=e[2], weight=e[3], rel=e[4]) for e in g.get("edges", [])]
        if edges:
            st.upsert_edges(gid, edges)
    return st


def store_fingerprint(st) -> str:
    h = hashlib.sha256()
    for gid in sorted(getattr(st, "_graphs", {})):
        g = st._graphs[gid]
        h.update(repr(("g", gid, g.version_etag, sorted(g.meta.items(), key=repr), sorted(g.flags.items(), key=repr))).encode())
        for nid, n in g.nodes.items():  # insertion order is part of the state (csr order)
            h.update(repr(("n", nid, n.id, n.label, sorted((n.attrs or {}).items(), key=repr))).encode())
        for eid, e in g.edges.items():
            h.update(repr(("e", eid, e.id, e.src, e.dst, repr(e.weight), e.rel, sorted((e.attrs or {}).items(), key=repr))).encode())
    return h.hexdigest()


def gen_graph(rng, nmax=12, emax=20, vocab=VOCAB, weights=None, idp="n") -> dict:
    n = rng.randint(1, nmax)
    ids = [f"{idp}{i}" for i in range(n)]
    rng.shuffle(ids)
    nodes = []
    for i in ids:
        lab = rng.choice(vocab + ["", None]) if rng.random() < 0.9 else rng.choice(vocab) + " " + rng.choice(vocab)
        tags = None
        if rng.random() < 0.3:
            tags = rng.sample(vocab, rng.randint(0, 2))
            if rng.random() < 0.2:
                tags.append(rng.choice(["", 7, None]))
        nodes.append([i, lab, tags])
    ws = weights or [0.8, 0.5, -0.7, 0.0, 1.0, 2.5, 1e-7, 0.3, -1.0, 1e3]
    shape = rng.choice(["rand", "chain", "star", "cycle", "rand", "rand", "tworoute", "tworoute"])
    pairs = []
    strong = {}
    if shape == "tworoute" and n >= 6:
        # a long strong route and a short route whose first edge is weak lead to the same node, which
        # then continues: discovery order (by magnitude) and hop distance disagree, so the node is first
        # seen at the long distance and later relaxed to the short one
        L = rng.randint(3, min(4, n - 3))
        route = ids[: L + 1]              # ids[0] -> ... -> ids[L]
        c = ids[L + 1]
        tail = ids[L + 2:]
        pairs = [(route[i], route[i + 1]) for i in range(L)]
        for pr in pairs:
            strong[pr] = ("supports", 1.0)
        pairs += [(route[0], c), (c, route[L])]
        strong[(route[0], c)] = ("supports", rng.choice([0.01, 0.05, 0.1]))
        strong[(c, route[L])] = ("supports", 1.0)
        prev = route[L]
        for t in tail[: rng.randint(1, 2)]:
            pairs.append((prev, t))
            strong[(prev, t)] = ("supports", 1.0)
            prev = t
        for i, nd in enumerate(nodes):
            if nd[0] == route[0]:
                nd[1] = nd[1] or rng.choice(vocab)
            elif rng.random() < 0.7:
                nd[1], nd[2] = (f"zz{i}", None)  # keep the other nodes from seeding
    elif shape == "tworoute":
        shape = "rand"
    if shape == "chain":
        pairs = [(ids[i], ids[i + 1]) for i in range(n - 1)]
    elif shape == "star":
        pairs = [(ids[0], x) for x in ids[1:]]
    elif shape == "cycle":
        pairs = [(ids[i], ids[(i + 1) % n]) for i in range(n)]
    m = rng.randint(0, emax)
    pairs += [(rng.choice(ids), rng.choice(ids)) for _ in range(m if shape == "rand" else m // 3)]
    if pairs and rng.random() < 0.3:
        pairs.append(rng.choice(pairs))  # parallel edge
    edges = []
    for k, (s, d) in enumerate(pairs):
        if (s, d) in strong and rng.random() < 0.9:
            rel, w = strong[(s, d)]
            edges.append([f"e{k}", s, d, w, rel])
        else:
            edges.append([f"e{k}", s, d, rng.choice(ws), rng.choice(RELS)])
    return {"nodes": nodes, "edges": edges}


def gen_text(rng, vocab=VOCAB, kmax=3) -> str:
    words = rng.sample(vocab, rng.randint(0, kmax))
    t = " ".join(words)
    r = rng.random()
    if r < 0.25:
        t = t.upper()
    elif r < 0.35:
        t = t.title()
    elif r < 0.4:
        t = "xx" + t + "yy"
    return t


# ---------------------------------------------------------------------------------------
# memory
# ---------------------------------------------------------------------------------------

def build_index(episodes: List[dict], dim: int = 32):
    """episodes: JSON-able dicts; 'vec' is one of "enc" (embed text), "zero", None, or "enc:<other text>"."""
    import numpy as np
    from clematis.memory.index import InMemoryIndex
    from clematis.adapters.embeddings import DeterministicEmbeddingAdapter

    enc = DeterministicEmbeddingAdapter(dim=dim)
    idx = InMemoryIndex()
    for e in episodes:
        ep = {k: copy.deepcopy(v) for k, v in e.items() if k not in ("vec", "vec_store")}
        v = e.get("vec", "enc")
        if v == "enc":
            ep["vec_full"] = enc.encode([e.get("text", "")])[0]
            # how the caller stored the vector: the adapter's float32 array, a float64 array (numpy's default), a plain list
            kind = e.get("vec_store")
            if kind == "f64":
                ep["vec_full"] = np.asarray(ep["vec_full"], dtype=np.float64)
            elif kind == "list":
                ep["vec_full"] = [float(x) for x in ep["vec_full"]]
        elif isinstance(v, str) and v.startswith("enc:"):
            ep["vec_full"] = enc.encode([v[4:]])[0]
        elif v == "zero":
            ep["vec_full"] = np.zeros(dim, dtype=np.float32)
        elif v is None:
            pass
        idx.add(ep)
    return idx


# ---------------------------------------------------------------------------------------
# hooks
# ---------------------------------------------------------------------------------------

@contextlib.contextmanager
def patched(obj, name: str, value):
    """Rebind obj.name for the duration (call-time lookups in the engine see it)."""
    missing = object()
    old = getattr(obj, name, missing)
    setattr(obj, name, value)
    try:
        yield old
    finally:
        if old is missing:
            try:
                delattr(obj, name)
            except Exception:
                pass
        else:
            setattr(obj, name, old)


class Counter:
    """Call-through wrapper that counts and optionally records calls."""

    def __init__(self, fn, record=False):
        self.fn = fn
        self.n = 0
        self.calls = [] if record else None

    def __call__(self, *a, **k):
        self.n += 1
        r = self.fn(*a, **k)
        if self.calls is not None:
            self.calls.append((a, k, r))
        return r


@contextlib.contextmanager
def tmpdir(prefix="vh_"):
    base = os.environ.get("VERIF_TMP") or "/var/tmp"
    d = tempfile.mkdtemp(prefix=prefix, dir=base)
    try:
        yield d
    finally:
        shutil.rmtree(d, ignore_errors=True)


def read_jsonl(path: str) -> List[dict]:
    out = []
    if not os.path.exists(path):
        return out
    with open(path, "rb") as f:
        for ln in f.read().split(b"\n"):
            if ln.strip():
                out.append(json.loads(ln))
    return out


def dir_bytes(d: str) -> Dict[str, bytes]:
    out = {}
    for root, _dirs, files in os.walk(d):
        for fn in sorted(files):
            p = os.path.join(root, fn)
            with open(p, "rb") as f:
                out[os.path.relpath(p, d)] = f.read()
    return out


def feq(a: float, b: float) -> bool:
    if isinstance(a, float) and isinstance(b, float) and math.isnan(a) and math.isnan(b):
        return True
    return a == b


# ---------------------------------------------------------------------------------------
# line-level yield injection (sys.monitoring): a thread switch is offered at statement starts of
# the given code objects, so that worker threads running them genuinely interleave
# ---------------------------------------------------------------------------------------
def nested_codes(fn_or_code):
    """The code object of a function and of every function / comprehension nested inside it."""
    import types
    c = getattr(fn_or_code, "__code__", fn_or_code)
    out, stack = [], [c]
    while stack:
        x = stack.pop()
        out.append(x)
        for k in x.co_consts:
            if isinstance(k, types.CodeType):
                stack.append(k)
    return out


@contextlib.contextmanager
def line_yields(codes, prob=0.3, seed=0, tool=4, name="verif-yield"):
    import random as _r
    import sys as _s
    import time as _t

    mon = getattr(_s, "monitoring", None)
    counter = [0]
    if mon is None:
        yield counter
        return
    rng = _r.Random(seed)

    def on_line(code, line):
        if rng.random() < prob:
            counter[0] += 1
            _t.sleep(0)

    try:
        mon.use_tool_id(tool, name)
    except ValueError:
        pass
    mon.register_callback(tool, mon.events.LINE, on_line)
    for c in codes:
        mon.set_local_events(tool, c, mon.events.LINE)
    try:
        yield counter
    finally:
        for c in codes:
            try:
                mon.set_local_events(tool, c, 0)
            except Exception:
                pass
        mon.register_callback(tool, mon.events.LINE, None)
        try:
            mon.free_tool_id(tool)
        except Exception:
            pass


def reuse_address(old_id: int, template, tries: int = 20000, skip=("_t2_cache_token",)):
    """A NEW object of template's class that lives at the address `old_id` (the address of an object that has just been
    freed), carrying template's attributes - or None if the allocator did not hand the block out within `tries`
    allocations.  CPython recycles the blocks of dead objects; which live object gets one is otherwise a lottery, and
    caches keyed by `id()` are wrong exactly when it happens."""
    cls = type(template)
    held = []
    for _ in range(tries):
        c = cls.__new__(cls)
        if id(c) == old_id:
            c.__dict__.update({k: v for k, v in template.__dict__.items() if k not in skip})
            return c
        held.append(c)
    return None
