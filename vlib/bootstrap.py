"""Process bootstrap for every harness process: import paths, environment hygiene,
global-state reset.  The code under observation is always $VERIF_REPO (default /repo),
imported from its current working tree."""
from __future__ import annotations

import os
import subprocess
import sys

VERIF = os.path.dirname(os.path.dirname(os.path.abspath(__file__)))
REPO = os.path.abspath(os.environ.get("VERIF_REPO", "/repo"))
DEPS = os.path.join(VERIF, ".deps")
WHEELS = "/opt/veriftools/wheels"
PY = "/venv/bin/python"

_VOLATILE_ENV = (
    "CI",
    "CLEMATIS_LOG_DIR",
    "CLEMATIS_LOGS_DIR",
    "CLEMATIS_SNAPSHOT_DIR",
    "CLEMATIS_CONFIG",
    "CLEMATIS_NETWORK_BAN",
    "CLEMATIS_DEBUG",
    "CLEMATIS_T3_ALLOW",
    "CLEMATIS_T3_APPLY_OPS",
    "CLEMATIS_LLM_MODE",
    "CLEMATIS_LLM_CASSETTE",
)


def ensure_deps(pkgs=("icontract", "deal", "jsonschema")) -> None:
    """Install the third-party helpers into the git-ignored .deps (offline wheelhouse)."""
    missing = []
    for p in pkgs:
        if not os.path.isdir(os.path.join(DEPS, p)):
            missing.append(p)
    if missing:
        os.makedirs(DEPS, exist_ok=True)
        subprocess.run(
            [PY, "-m", "pip", "install", "-q", "--no-index", "--find-links", WHEELS,
             "--target", DEPS, *missing],
            check=False, stdout=subprocess.DEVNULL, stderr=subprocess.DEVNULL,
            env={**os.environ, "PIP_NO_INDEX": "1"},
        )
    if DEPS not in sys.path:
        sys.path.append(DEPS)


def init(cwd_safe: bool = True) -> str:
    """Make `clematis` / `configs` import from REPO; returns REPO."""
    if sys.path[0] != REPO:
        while REPO in sys.path:
            sys.path.remove(REPO)
        sys.path.insert(0, REPO)
    if VERIF not in sys.path:
        sys.path.insert(1, VERIF)
    if os.path.isdir(DEPS) and DEPS not in sys.path:
        sys.path.append(DEPS)
    for k in _VOLATILE_ENV:
        os.environ.pop(k, None)
    os.environ["CLEMATIS_VERIF"] = "1"
    os.environ.setdefault("PYTHONDONTWRITEBYTECODE", "1")
    sys.dont_write_bytecode = True
    if cwd_safe and os.path.realpath(os.getcwd()).startswith("/tmp"):
        os.chdir(VERIF)
    import clematis  # noqa

    f = getattr(clematis, "__file__", None)
    if not f or not os.path.realpath(f).startswith(os.path.realpath(REPO) + os.sep):
        raise RuntimeError(f"clematis imported from {f!r}, expected under {REPO}")
    return REPO


def reset_globals() -> None:
    """Reset process-global engine state between cases."""
    try:
        import clematis.engine.stages.t1 as t1

        c = getattr(t1, "_T1_CACHE", None)
        if c is not None:
            t1._T1_CACHE = None
        if hasattr(t1, "_T1_CACHE_CFG"):
            t1._T1_CACHE_CFG = None
        if hasattr(t1, "_T1_CACHE_KIND"):
            t1._T1_CACHE_KIND = None
    except Exception:
        pass
    try:
        import clematis.engine.stages.t2.cache as t2c

        if hasattr(t2c, "_T2_CACHE"):
            t2c._T2_CACHE = None
        if hasattr(t2c, "_T2_CACHE_CFG"):
            t2c._T2_CACHE_CFG = None
        if hasattr(t2c, "_T2_CACHE_KIND"):
            t2c._T2_CACHE_KIND = None
    except Exception:
        pass
    for k in ("CI", "CLEMATIS_LOG_DIR", "CLEMATIS_LOGS_DIR"):
        os.environ.pop(k, None)


def child_env(**extra) -> dict:
    env = dict(os.environ)
    env["VERIF_REPO"] = REPO
    env["PYTHONPATH"] = os.pathsep.join([REPO, VERIF, DEPS])
    env["PYTHONDONTWRITEBYTECODE"] = "1"
    env.setdefault("PYTHONHASHSEED", "0")
    for k, v in extra.items():
        if v is None:
            env.pop(k, None)
        else:
            env[k] = str(v)
    return env
