"""Turn-level harness: runs real `Orchestrator.run_turn` calls against a generated world with
private log / snapshot directories, optional injected planner (through the orchestrator's own
`t3_deliberate` override), virtual clocks and call-through hooks; captures every artefact."""
from __future__ import annotations

import contextlib
import copy
import json
import os
import shutil
import sys
import tempfile
import time as _time
from types import SimpleNamespace as NS
from typing import Any, Callable, Dict, List, Optional

from . import bootstrap
from .harness import AD, to_ad, mk_cfg, iso_from_ms, NOW_MS, patched, read_jsonl, dir_bytes
from .world import build_state, state_fingerprint

CANON_STREAMS = ("t1.jsonl", "t2.jsonl", "t4.jsonl", "apply.jsonl", "turn.jsonl", "health.jsonl")


class VClock:
    """Stand-in for the `time` module inside core/apply/snapshot.  perf_counter advances by
    `step` per call (scaled), time.time follows a script."""

    def __init__(self, pc_step=0.0, pc_start=100.0, wall=1_900_000_000.0, wall_step=0.0, pc_script=None):
        self.pc = pc_start
        self.pc_step = pc_step
        self.wall = wall
        self.wall_step = wall_step
        self.pc_script = list(pc_script or [])  # explicit increments consumed first
        self.pc_calls = 0
        self.first = None

    def perf_counter(self):
        self.pc_calls += 1
        inc = self.pc_script.pop(0) if self.pc_script else self.pc_step
        self.pc += inc
        if self.pc_calls == 1:
            self.first = self.pc  # the first reading of a turn is its start-of-turn stamp
        return self.pc

    def time(self):
        self.wall += self.wall_step
        return self.wall

    def __getattr__(self, k):
        return getattr(_time, k)


def _modules_with_time():
    import clematis.engine.orchestrator.core as core
    import clematis.engine.apply as apply
    import clematis.engine.snapshot as snap
    return [m for m in (core, apply, snap) if hasattr(m, "time")]


@contextlib.contextmanager
def virtual_time(vc: Optional[VClock]):
    if vc is None:
        yield
        return
    mods = _modules_with_time()
    olds = [m.time for m in mods]
    for m in mods:
        m.time = vc
    try:
        yield
    finally:
        for m, o in zip(mods, olds):
            m.time = o


def mk_plan(spec: Optional[dict]):
    """Plan from a JSON-able spec: {"ops":[{"kind":"Speak",...}|{"kind":"EditGraph"}|{"kind":"RequestRetrieve"}],
    "deltas":[[kind,id,attr,delta,op_idx]], "reflection": bool}"""
    from clematis.engine.types import Plan, SpeakOp, EditGraphOp, RequestRetrieveOp, ProposedDelta, CreateGraphOp

    spec = spec or {}
    ops = []
    for o in spec.get("ops", [{"kind": "Speak"}]):
        k = o.get("kind")
        if k == "Speak":
            ops.append(SpeakOp(kind="Speak", intent=o.get("intent", "ack"), topic_labels=list(o.get("labels", [])), max_tokens=int(o.get("max_tokens", 64))))
        elif k == "EditGraph":
            ops.append(EditGraphOp(kind="EditGraph", edits=list(o.get("edits", [])), cap=int(o.get("cap", 4))))
        elif k == "RequestRetrieve":
            ops.append(RequestRetrieveOp(kind="RequestRetrieve", query=o.get("query", "hello"), owner=o.get("owner", "any"), k=int(o.get("k", 3))))
        elif k == "CreateGraph":
            ops.append(CreateGraphOp(kind="CreateGraph", title=o.get("title", "t"), tags=list(o.get("tags", []))))
    deltas = [ProposedDelta(target_kind=d[0], target_id=d[1], attr=d[2], delta=float(d[3]), op_idx=(d[4] if len(d) > 4 else None), idx=i)
              for i, d in enumerate(spec.get("deltas", []))]
    return Plan(version="t3-plan-v1", reflection=bool(spec.get("reflection", False)), ops=ops, deltas=deltas)


class TurnEnv:
    """One engine state + private directories.  Use as a context manager."""

    def __init__(self, cfg_over: Optional[dict] = None, world: Optional[dict] = None, *, ci: bool = True,
                 boot_loaded: bool = True, cfg_obj=None, snapshot_dir: Optional[str] = None, dim: Optional[int] = None,
                 keep_snapshot_dir_in_cfg: bool = False):
        self.base = tempfile.mkdtemp(prefix="vt_", dir=os.environ.get("VERIF_TMP") or "/var/tmp")
        self.log_dir = os.path.join(self.base, "logs")
        self.snap_dir = snapshot_dir or os.path.join(self.base, "snaps")
        os.makedirs(self.log_dir)
        os.makedirs(self.snap_dir, exist_ok=True)
        over = copy.deepcopy(cfg_over or {})
        if not keep_snapshot_dir_in_cfg:
            over.setdefault("t4", {})["snapshot_dir"] = self.snap_dir
        self.cfg_over = over
        self.cfg = cfg_obj if cfg_obj is not None else mk_cfg(over)
        self.world = world or {"graphs": {}, "eps": []}
        self.state = build_state(self.world, dim=dim or int(self.cfg.get("k_surface", 32) or 32), boot_loaded=boot_loaded)
        self.ci = ci
        self.results: List[dict] = []
        self._saved_env: Dict[str, Optional[str]] = {}
        self.fps: List[dict] = []

    # -- context -------------------------------------------------------------------------
    def __enter__(self):
        for k, v in (("CLEMATIS_LOG_DIR", self.log_dir), ("CLEMATIS_SNAPSHOT_DIR", self.snap_dir), ("CI", "true" if self.ci else None)):
            self._saved_env[k] = os.environ.get(k)
            if v is None:
                os.environ.pop(k, None)
            else:
                os.environ[k] = v
        return self

    def __exit__(self, *exc):
        for k, v in self._saved_env.items():
            if v is None:
                os.environ.pop(k, None)
            else:
                os.environ[k] = v
        shutil.rmtree(self.base, ignore_errors=True)
        return False

    def reboot(self):
        """Replace the engine state by a fresh, not yet booted one over the same world and directories: the next turn runs
        the real boot loader against whatever snapshots the earlier turns left behind."""
        w = dict(self.world)
        w["gel"] = None
        self.state = build_state(w, dim=int(self.cfg.get("k_surface", 32) or 32), boot_loaded=False)

    def activate(self):
        """Re-point the process environment at this env's directories (for interleaved envs)."""
        os.environ["CLEMATIS_LOG_DIR"] = self.log_dir
        os.environ["CLEMATIS_SNAPSHOT_DIR"] = self.snap_dir

    # -- running -------------------------------------------------------------------------
    def ctx(self, agent="A", turn=1, now_ms: Optional[int] = NOW_MS, now="auto", **extra):
        if now == "auto":
            now = iso_from_ms(now_ms) if now_ms is not None else None
        return NS(turn_id=turn, agent_id=agent, now=now, now_ms=now_ms, cfg=self.cfg, config=self.cfg, **extra)

    def run(self, agent="A", text="hello", turn=1, now_ms: Optional[int] = NOW_MS, now="auto", plan: Any = None,
            vclock: Optional[VClock] = None, ctx_extra: Optional[dict] = None, fingerprint: bool = False, ctx_obj: Any = None, via_driver: bool = False) -> dict:
        """plan: None (real planner), a dict spec for mk_plan, or a callable (ctx,state,bundle)->Plan.
        ctx_obj: reuse a ctx object of an earlier turn (callers may keep one ctx and advance turn_id / now on it)."""
        import clematis.engine.orchestrator as orch
        from clematis.engine.orchestrator.core import Orchestrator

        self.activate()
        if ctx_obj is not None:
            fresh = self.ctx(agent, turn, now_ms, now, **(ctx_extra or {}))
            for k_ in ("turn_id", "agent_id", "now", "now_ms"):
                setattr(ctx_obj, k_, getattr(fresh, k_))
            for k_, v_ in (ctx_extra or {}).items():
                setattr(ctx_obj, k_, v_)
            ctx = ctx_obj
        else:
            ctx = self.ctx(agent, turn, now_ms, now, **(ctx_extra or {}))
        out: Dict[str, Any] = {"agent": agent, "turn": turn, "text": text, "exc": None, "line": None}
        cm = contextlib.ExitStack()
        with cm:
            if plan is not None:
                fn = plan if callable(plan) else (lambda c, s, b, _p=plan: mk_plan(_p))
                cm.enter_context(patched(orch, "t3_deliberate", fn))
            cm.enter_context(virtual_time(vclock))
            try:
                if via_driver:
                    # the same turn handed to the agent batch driver as a batch of one
                    import clematis.engine.orchestrator.parallel as _P
                    rs = _P._run_agents_parallel_batch(ctx, self.state, [(agent, text)])
                    r = rs[0] if rs else NS(line=None)
                else:
                    r = Orchestrator().run_turn(ctx, self.state, text)
                out["line"] = r.line
            except Exception as ex:  # recorded; the caller decides what it means
                import traceback
                out["exc"] = f"{type(ex).__name__}: {ex}"
                out["exc_type"] = type(ex).__name__
                out["tb"] = traceback.format_exc()[-1500:]
        out["ctx"] = ctx
        if fingerprint:
            out["fp"] = state_fingerprint(self.state)
        self.results.append({k: v for k, v in out.items() if k != "ctx"})
        return out

    # -- artefacts -----------------------------------------------------------------------
    def logs(self) -> Dict[str, bytes]:
        return dir_bytes(self.log_dir)

    def snaps(self) -> Dict[str, bytes]:
        return dir_bytes(self.snap_dir)

    def records(self, stream: str) -> List[dict]:
        return read_jsonl(os.path.join(self.log_dir, stream))

    def canon(self, data: bytes) -> bytes:
        return data.replace(self.snap_dir.encode(), b"<SNAP>").replace(self.log_dir.encode(), b"<LOGS>").replace(self.base.encode(), b"<BASE>")

    def bundle(self, streams=None, mask_t3_ms: bool = True) -> Dict[str, Any]:
        """Comparable artefact bundle: utterances, log bytes (dir-normalised), snapshot bodies."""
        logs = {}
        for name, data in self.logs().items():
            if streams is not None and name not in streams:
                continue
            data = self.canon(data)
            if name == "scheduler.jsonl" or (mask_t3_ms and name.startswith("t3")) or name == "gel.jsonl":
                data = _mask_ms(data)
            logs[name] = data
        snaps = {n: self.canon(b) for n, b in self.snaps().items() if n.endswith(".json")}
        return {"lines": [r.get("line") for r in self.results], "excs": [r.get("exc_type") for r in self.results],
                "logs": logs, "snaps": snaps}


def _mask_ms(data: bytes) -> bytes:
    out = []
    for ln in data.split(b"\n"):
        if not ln.strip():
            continue
        try:
            rec = json.loads(ln)
        except Exception:
            out.append(ln)
            continue
        for k in list(rec.keys()):
            if k == "ms" or k.startswith("ms_"):
                rec[k] = 0
        if isinstance(rec.get("consumed"), dict) and "ms" in rec["consumed"]:
            rec["consumed"]["ms"] = 0
        out.append(json.dumps(rec, ensure_ascii=False).encode())
    return b"\n".join(out) + (b"\n" if out else b"")


def diff_bundles(a: dict, b: dict) -> List[str]:
    """Human-readable list of differences (stream / record index / json path)."""
    out = []
    if a["lines"] != b["lines"]:
        out.append(f"utterances differ: {a['lines']!r} vs {b['lines']!r}"[:300])
    if a["excs"] != b["excs"]:
        out.append(f"exceptions differ: {a['excs']!r} vs {b['excs']!r}")
    for kind in ("logs", "snaps"):
        for name in sorted(set(a[kind]) | set(b[kind])):
            x, y = a[kind].get(name), b[kind].get(name)
            if x == y:
                continue
            if x is None or y is None:
                out.append(f"{kind}:{name}: only in {'second' if x is None else 'first'}")
                continue
            xl, yl = x.split(b"\n"), y.split(b"\n")
            if len(xl) != len(yl):
                out.append(f"{kind}:{name}: {len(xl) - 1} vs {len(yl) - 1} records")
                continue
            for i, (p, q) in enumerate(zip(xl, yl)):
                if p != q:
                    out.append(f"{kind}:{name}[{i}]: " + _json_diff(p, q))
                    break
    return out


def _json_diff(p: bytes, q: bytes) -> str:
    try:
        a, b = json.loads(p), json.loads(q)
    except Exception:
        return f"{p[:120]!r} vs {q[:120]!r}"
    paths = []

    def walk(x, y, path):
        if isinstance(x, dict) and isinstance(y, dict):
            for k in sorted(set(x) | set(y)):
                if k not in x or k not in y:
                    paths.append(f"{path}.{k}(missing)")
                else:
                    walk(x[k], y[k], f"{path}.{k}")
        elif isinstance(x, list) and isinstance(y, list) and len(x) == len(y):
            for i, (u, v) in enumerate(zip(x, y)):
                walk(u, v, f"{path}[{i}]")
        elif x != y or type(x) is not type(y):
            paths.append(f"{path}: {x!r} vs {y!r}"[:160])

    walk(a, b, "$")
    if not paths and list(_keys(a)) != list(_keys(b)):
        return "key order differs"
    return "; ".join(paths[:4])


def _keys(o):
    if isinstance(o, dict):
        for k, v in o.items():
            yield k
            yield from _keys(v)
    elif isinstance(o, list):
        for v in o:
            yield from _keys(v)


def diff_paths(a: dict, b: dict) -> List[str]:
    """Set of 'stream:$.json.path' that differ (for keying known findings by field)."""
    out = set()
    for kind in ("logs", "snaps"):
        for name in sorted(set(a[kind]) | set(b[kind])):
            x, y = a[kind].get(name), b[kind].get(name)
            if x == y:
                continue
            if x is None or y is None:
                out.add(f"{name}:<presence>")
                continue
            xl, yl = x.split(b"\n"), y.split(b"\n")
            if len(xl) != len(yl):
                out.add(f"{name}:<record-count>")
                continue
            for p, q in zip(xl, yl):
                if p != q:
                    d = _json_diff(p, q)
                    for part in d.split("; "):
                        out.add(f"{name}:{part.split(':')[0].split('(')[0]}")
    if a["lines"] != b["lines"]:
        out.add("<utterance>")
    if a["excs"] != b["excs"]:
        out.add("<exception>")
    return sorted(out)
