"""Subprocess worker: replays a scenario (world, config, turns) on the real orchestrator under a variant
(virtual clocks, warm re-run, thread jitter, cwd, now=None) and prints the artefact bundle as JSON.
stdin: {"scenario": {...}, "variant": {...}}"""
import json
import os
import random
import sys
import time


def run_scenario(sc, variant, round_tag=""):
    from vlib.turn import TurnEnv, VClock
    from vlib import bootstrap
    import copy

    world = copy.deepcopy(sc["world"])
    if sc.get("boot_from_snapshot", False):
        world["gel"] = None  # a state that has not booted yet carries no GEL graph: the loader installs the containers
    env = TurnEnv(copy.deepcopy(sc["cfg"]), world, boot_loaded=not sc.get("boot_from_snapshot", False))
    recycled = {}
    if variant.get("_reuse_ids"):
        # the state's index / store objects re-created on the addresses of objects that died earlier in this process
        from vlib.harness import reuse_address
        for k_, oid in variant["_reuse_ids"].items():
            cur_ = env.state.get(k_)
            if cur_ is not None and hasattr(cur_, "__dict__"):
                obj = reuse_address(oid, cur_)
                if obj is not None:
                    env.state[k_] = obj
                    recycled[k_] = True
            del cur_
    with env:
        vc = None
        if variant.get("vclock"):
            v = variant["vclock"]
            vc = VClock(pc_step=v.get("pc_step", 0.0), pc_start=v.get("pc_start", 100.0), wall=v.get("wall", 1.9e9), wall_step=v.get("wall_step", 0.0))
        if variant.get("jitter"):
            jr = random.Random(variant["jitter"])
            st = env.state["store"]
            real_get = st.get_graph

            def slow_get(gid):
                time.sleep(jr.choice([0, 0, 0.0004, 0.001]))
                return real_get(gid)

            st.get_graph = slow_get
            if hasattr(st, "csr"):
                real_csr = st.csr

                def slow_csr(gid):  # a second suspension point, inside the per-graph computation
                    time.sleep(jr.choice([0, 0.0003, 0.001, 0.002]))
                    return real_csr(gid)

                st.csr = slow_csr
            sys.setswitchinterval(1e-6)
        shim = None
        if variant.get("datetime_target_ms") is not None:
            variant = dict(variant)
            variant["datetime_shift_days"] = (variant["datetime_target_ms"] / 1000.0 - time.time()) / 86400.0
        if variant.get("datetime_shift_days") is not None:
            # code paths that read the wall-clock date (datetime.now) when ctx.now is unset
            import datetime as _dt
            import clematis.engine.stages.t2.core as t2core
            import clematis.memory.index as memidx
            import clematis.engine.stages.t2.helpers as t2h

            delta = _dt.timedelta(days=variant["datetime_shift_days"])

            class _DT(_dt.datetime):
                @classmethod
                def now(cls, tz=None):
                    return _dt.datetime.now(tz) + delta

            class _Shim:
                datetime = _DT
                timezone = _dt.timezone
                timedelta = _dt.timedelta

                def __getattr__(self, k):
                    return getattr(_dt, k)

            shim = _Shim()
            for m in (t2core, memidx, t2h):
                if hasattr(m, "dt"):
                    m.dt = shim
        ctxs = {}
        for ti_, t in enumerate(sc["turns"]):
            if sc.get("reboot_at") is not None and ti_ == sc["reboot_at"]:
                env.reboot()  # a new process image of the engine: fresh state, boots from the snapshot directory
            now = "auto"
            if variant.get("now_none"):
                now = None
            key = t["agent"] if variant.get("reuse_ctx") == "per-agent" else "*"
            r_ = env.run(t["agent"], t["text"], t["turn"], now_ms=t["now_ms"], now=now, plan=t.get("plan"), vclock=vc,
                         ctx_obj=ctxs.get(key) if variant.get("reuse_ctx") else None)
            if variant.get("reuse_ctx"):
                ctxs[key] = r_["ctx"]
        b = env.bundle()
        out = {"lines": b["lines"], "excs": b["excs"], "logs": {k: v.decode("utf-8", "surrogateescape") for k, v in b["logs"].items()},
               "snaps": {k: v.decode("utf-8", "surrogateescape") for k, v in b["snaps"].items()},
               "tbs": [r.get("tb", "")[-600:] for r in env.results if r.get("exc")]}
    out["_recycled"] = sorted(recycled)
    if variant.get("_report_ids"):
        import gc
        out["_ids"] = {k_: id(env.state[k_]) for k_ in ("mem_index", "store") if env.state.get(k_) is not None}
        env.state.clear()
        env.results[:] = []
        ctxs.clear()
        del env
        gc.collect()
    return out


def main():
    job = json.load(sys.stdin)
    gw = ((job.get("variant") or {}).get("vclock") or {}).get("global_wall")
    if gw is not None:
        # the process-wide wall clock frozen BEFORE the engine is imported: everything that captured time.time at import or
        # as a default argument (the TTL caches) runs on it too
        time.time = (lambda _t=float(gw): _t)
    from vlib import bootstrap

    bootstrap.init()
    variant = job.get("variant") or {}
    if variant.get("cwd"):
        os.makedirs(variant["cwd"], exist_ok=True)
        os.chdir(variant["cwd"])
    out = None if (variant.get("warm_perturbed") or variant.get("warm_recycled")) else run_scenario(job["scenario"], variant)
    if variant.get("warm_perturbed"):
        # first an execution under a perturbed copy of the configuration (same world and turns), result discarded
        import copy

        def perturb(o, path=()):
            if isinstance(o, dict):
                return {k: perturb(v, path + (k,)) for k, v in o.items()}
            if isinstance(o, bool) or o is None or isinstance(o, (str, list)):
                return o
            if isinstance(o, int):
                return o + 1 if o < 10 ** 6 else o
            if isinstance(o, float):
                return o * 0.05 if abs(o) <= 1.0 else o * 0.25
            return o

        sc2 = copy.deepcopy(job["scenario"])
        sc2["cfg"] = perturb(sc2["cfg"])
        try:
            run_scenario(sc2, {}, "primer")
        except Exception:
            pass  # a perturbed config the validator rejects: no primer, the variant degenerates to a plain replay
        out = run_scenario(job["scenario"], variant, "real")
    if variant.get("warm_recycled"):
        # first ANOTHER world of the same sizes (same ids, the contents rotated) lives and dies in this process; then the real
        # scenario runs on a state whose index / store sit on the dead objects' addresses
        import copy

        sc2 = copy.deepcopy(job["scenario"])
        eps = sc2["world"].get("eps") or []
        if len(eps) >= 2:
            rot = [dict(e) for e in eps[1:] + eps[:1]]
            for e, r in zip(eps, rot):
                for f_ in ("text", "ts", "aux", "owner"):
                    if f_ in r:
                        e[f_] = copy.deepcopy(r[f_])
        for g in (sc2["world"].get("graphs") or {}).values():
            for e in g.get("edges", []):
                e[3] = 0.9 if e[3] != 0.9 else 0.3
        ids = {}
        try:
            ids = run_scenario(sc2, {"_report_ids": True}, "primer").get("_ids") or {}
        except Exception:
            pass
        out = run_scenario(job["scenario"], dict(variant, _reuse_ids=ids), "real")
    if variant.get("warm"):
        # second execution in the same (now warm) process on fresh states; process-global caches are NOT reset
        out = run_scenario(job["scenario"], variant, "warm")
    print(json.dumps(out))


if __name__ == "__main__":
    main()
