"""Fan-out helpers.  In-process chunks run in forked worker processes
(ProcessPoolExecutor: a dying child raises BrokenProcessPool instead of hanging);
cases that need their own interpreter/environment go through `run_py`."""
from __future__ import annotations

import concurrent.futures as cf
import json
import multiprocessing as mp
import os
import subprocess
import sys
from typing import Any, Callable, Iterable, List

from . import bootstrap

NWORK = max(2, min(14, (os.cpu_count() or 4) - 2))


def pmap(fn: Callable, items: Iterable[Any], workers: int = NWORK, timeout: float = 3600.0) -> List[Any]:
    items = list(items)
    if not items:
        return []
    if workers <= 1 or len(items) == 1:
        return [fn(x) for x in items]
    ctx = mp.get_context("fork")
    out: List[Any] = [None] * len(items)
    with cf.ProcessPoolExecutor(max_workers=min(workers, len(items)), mp_context=ctx) as ex:
        futs = {ex.submit(fn, x): i for i, x in enumerate(items)}
        for f in cf.as_completed(futs, timeout=timeout):
            out[futs[f]] = f.result()
    return out


def tmap(fn: Callable, items: Iterable[Any], workers: int = NWORK) -> List[Any]:
    """Thread fan-out (for functions that spawn one subprocess each)."""
    items = list(items)
    with cf.ThreadPoolExecutor(max_workers=max(1, min(workers, len(items) or 1))) as ex:
        return list(ex.map(fn, items))


def run_py(module: str, payload: Any, env: dict | None = None, timeout: float = 300.0,
           py_args: tuple = ()) -> dict:
    """Run `python -m <module>` with JSON on stdin, JSON on the last stdout line.
    Returns {"ok": bool, "out": obj|None, "rc": int, "stderr": str, "timeout": bool}."""
    e = bootstrap.child_env(**(env or {}))
    try:
        p = subprocess.run(
            [bootstrap.PY, "-X", "faulthandler", *py_args, "-m", module],
            input=json.dumps(payload).encode(), capture_output=True, env=e,
            cwd=bootstrap.VERIF, timeout=timeout,
        )
    except subprocess.TimeoutExpired as ex:
        return {"ok": False, "out": None, "rc": -1, "stderr": (ex.stderr or b"").decode("utf-8", "replace")[-2000:], "timeout": True}
    out = None
    ok = False
    txt = p.stdout.decode("utf-8", "replace").strip().splitlines()
    if p.returncode == 0 and txt:
        try:
            out = json.loads(txt[-1])
            ok = True
        except Exception:
            ok = False
    return {"ok": ok, "out": out, "rc": p.returncode, "stderr": p.stderr.decode("utf-8", "replace")[-3000:], "timeout": False}
