"""C20 - Optional subsystems fail soft: a turn always completes.

For every declared fail-soft site a failpoint (a call-through replacement of the callee that the engine
looks up by name at call time, raising a chosen exception type) or real garbage in the snapshot directory
is installed, real turns are run, and
  * run_turn must return (any exception escaping = violation, with site and type),
  * the canonical t1/t2/t4/apply/turn records must equal, byte for byte, those of the per-site off/idle
    baseline: boot load -> empty snapshot directory; GEL passes -> merge/split/promotion disabled (GEL on);
    reflection -> allow_reflection=false; LLM adapter -> backend rulebased; hybrid / fusion / MMR / quality
    trace -> that layer disabled; cache invalidation -> cache_bust_mode none; store errors -> a store that
    is idle for exactly the failing calls; sidecar -> the unfaulted run,
  * the failpoint must actually have been hit (else the case is inconclusive for that site).
Sites are exercised singly for every exception type and in random combinations of 2-4.
"""
from __future__ import annotations

import contextlib
import copy
import importlib
import os
import random

from vlib import par
from vlib.session import Session, unjson, chash

PID = "C20"
RULE = ("one evaluation = one scenario run with failpoints at one or several declared fail-soft sites, compared with the "
        "off/idle baseline of those sites; non-trivial = every installed failpoint was hit at least once")
CANON = ("t1.jsonl", "t2.jsonl", "t4.jsonl", "apply.jsonl", "turn.jsonl")


class CustomFailure(Exception):
    pass


EXCS = [ValueError, KeyError, TypeError, OSError, RuntimeError, MemoryError, RecursionError, AssertionError, UnicodeError, ZeroDivisionError, CustomFailure]
GARBAGE = ["empty", "truncated", "binary", "array", "delta-no-baseline", "foreign", "bigline", "dir", "scalar", "nul", "header+list-body", "header+scalar-body",
           # snapshots that carry every schema stamp but are damaged at field level (they are real snapshots as far as the loader
           # can tell, so only "the turn completes" is judged for them, not equality with an empty directory)
           "stamped:edges-list", "stamped:edges-scalar", "stamped:edge-weight-null", "stamped:edge-weight-text", "stamped:edge-weight-object", "stamped:nodes-list", "stamped:store-garbage", "stamped:edge-attrs-null", "stamped:edge-not-an-object", "stamped:meta-null"]
PARTIAL = tuple(g for g in GARBAGE if g.startswith("stamped:"))
SITES = ["boot-failpoint", "boot-garbage", "gel-merge-candidates", "gel-apply-merge", "gel-split-candidates", "gel-apply-split", "gel-promote", "gel-apply-promotion",
         "reflect-compute", "reflect-write", "reflect-telemetry", "llm-adapter-build", "llm-adapter-ci-provider", "hybrid-rerank", "fusion", "mmr", "fusion-and-mmr", "quality-trace",
         "cache-invalidate", "store-batch", "store-all", "store-some", "sidecar"]


# sites the current tree may not reach at all (no requirement on their hit counters): the trace sink with the quality layer ON
OPTIONAL_SITES = ["quality-trace-enabled-path"]
LATE_OK = {"hybrid-rerank", "fusion", "mmr", "quality-trace", "cache-invalidate", "sidecar", "llm-adapter-build"}


def site_cfgs(site, rng):
    """(config with the subsystem on [faulted run], baseline config) as override dicts."""
    from vlib.cfggen import gate_cfg, merge

    if site.startswith("boot"):
        # GEL learning + hybrid rerank healthy in both runs: what the boot hook does to state.graph becomes visible in
        # the canonical t2 records of later turns
        both = merge(gate_cfg(rng, "gel", True), gate_cfg(rng, "hybrid", True))
        for k in ("merge", "split", "promotion"):
            both["graph"][k]["enabled"] = False
        both["graph"].update({"coactivation_threshold": 0.0, "observe_top_k": 8, "pair_cap_per_obs": 64})
        both["graph"]["update"] = {"mode": "additive", "alpha": 0.5}
        both["graph"]["decay"] = {"half_life_turns": 100000, "floor": 0.0}
        both["t2"]["hybrid"].update({"edge_threshold": 0.0, "lambda_graph": 1.0, "k_max": 128, "anchor_top_m": 8, "walk_hops": 1, "max_bonus": 10.0})
        return both, copy.deepcopy(both)
    if site.startswith("gel-"):
        on = gate_cfg(rng, "gel", True)
        on["graph"]["merge"]["min_avg_w"] = 0.3
        on["graph"]["split"]["weak_edge_thresh"] = 0.3   # preloaded weak edges give the split pass candidates
        # edges that keep their weight, or that lose half of it every turn (what a failing pass must not undo)
        on["graph"]["decay"] = {"half_life_turns": rng.choice([100000, 100000, 1, 2]), "floor": 0.0}
        base = copy.deepcopy(on)
        for k in ("merge", "split", "promotion"):
            base["graph"][k]["enabled"] = False
        return on, base
    if site.startswith("reflect-"):
        on = gate_cfg(rng, "reflection", True)
        on["scheduler"]["budgets"]["ops_reflection"] = 2
        base = copy.deepcopy(on)
        base["t3"]["allow_reflection"] = False
        return on, base
    if site == "llm-adapter-build":
        return {"t3": {"backend": "llm", "llm": {"provider": "fixture", "fixtures": {"enabled": True, "path": "/nonexistent/fixtures.jsonl"}}}}, {"t3": {"backend": "rulebased"}}
    if site == "llm-adapter-ci-provider":
        return {"t3": {"backend": "llm", "llm": {"provider": "ollama"}}}, {"t3": {"backend": "rulebased"}}
    if site == "hybrid-rerank":
        on = gate_cfg(rng, "hybrid", True)
        on["t2"]["hybrid"].update({"edge_threshold": 0.0, "lambda_graph": 1.0, "k_max": 128})
        base = copy.deepcopy(on)
        base["t2"]["hybrid"]["enabled"] = False
        return on, base
    if site == "fusion":
        on = {"t2": {"quality": {"enabled": True, "fusion": {"alpha_semantic": 0.6}}}}
        return on, {"t2": {"quality": {"enabled": False}}}
    if site == "mmr":
        on = {"t2": {"quality": {"enabled": True, "fusion": {"alpha_semantic": 0.6}, "mmr": {"enabled": True, "lambda": 0.5, "k": 3}}}}
        base = copy.deepcopy(on)
        base["t2"]["quality"]["mmr"]["enabled"] = False
        return on, base
    if site == "fusion-and-mmr":
        # both quality operations fail in one request: the layer is as good as switched off
        on = {"t2": {"quality": {"enabled": True, "fusion": {"alpha_semantic": 0.6}, "mmr": {"enabled": True, "lambda": 0.5, "k": 3}}}}
        return on, {"t2": {"quality": {"enabled": False}}}
    if site == "quality-trace-enabled-path":
        both = {"t2": {"quality": {"enabled": True, "shadow": False, "fusion": {"alpha_semantic": 0.6}, "mmr": {"enabled": True, "lambda": 0.5, "k": 3}}},
                "perf": {"enabled": True, "metrics": {"report_memory": True}}}
        return both, copy.deepcopy(both)  # idle baseline: the same configuration with a working sink
    if site == "quality-trace":
        on = {"t2": {"quality": {"enabled": False, "shadow": True}}, "perf": {"enabled": True, "metrics": {"report_memory": True}}}
        base = copy.deepcopy(on)
        base["t2"]["quality"]["shadow"] = False
        return on, base
    if site == "cache-invalidate":
        ns = rng.choice([["t2:semantic"], ["t2:semantic"], [], ["t2:semantic", "t2:semantic"]])  # an empty list = nothing to invalidate
        return {"t4": {"cache_bust_mode": "on-apply", "cache": {"enabled": True, "namespaces": ns}}}, {"t4": {"cache_bust_mode": "none", "cache": {"enabled": True, "namespaces": ns}}}
    return {}, {}


@contextlib.contextmanager
def install(site, exc, hits, env, garbage=None):
    """Install the failpoint(s) of one site; `hits[site]` counts how often it fired."""
    import clematis.engine.orchestrator.core as core
    import clematis.engine.stages.t2.quality as qual
    import clematis.engine.stages.t2.quality_ops as qops
    import clematis.engine.orchestrator.reflection as RW
    import clematis.engine.snapshot as snap
    import clematis.engine.cache as cachem
    from vlib.harness import patched

    hits.setdefault(site, 0)

    def boom(*a, **k):
        hits[site] += 1
        raise exc(f"failpoint {site}")

    st = contextlib.ExitStack()
    with st:
        if site == "boot-failpoint":
            st.enter_context(patched(core, "load_latest_snapshot", boom))
        elif site == "boot-garbage":
            hits[site] += 1  # real files; nothing to count
        elif site == "gel-merge-candidates":
            st.enter_context(patched(core, "gel_merge_candidates", boom))
        elif site == "gel-apply-merge":
            st.enter_context(patched(core, "gel_apply_merge", boom))
        elif site == "gel-split-candidates":
            st.enter_context(patched(core, "gel_split_candidates", boom))
        elif site == "gel-apply-split":
            st.enter_context(patched(core, "gel_apply_split", boom))
        elif site == "gel-promote":
            st.enter_context(patched(core, "gel_promote_clusters", boom))
        elif site == "gel-apply-promotion":
            st.enter_context(patched(core, "gel_apply_promotion", boom))
        elif site == "reflect-compute":
            m = importlib.import_module("clematis.engine.stages.t3.reflect")
            st.enter_context(patched(m, "reflect", boom))
        elif site == "reflect-write":
            st.enter_context(patched(RW, "write_reflection_entries", boom))
        elif site == "reflect-telemetry":
            st.enter_context(patched(core, "log_t3_reflection", boom))
        elif site == "llm-adapter-build" and not getattr(env, "_c20_natural_llm", False):
            st.enter_context(patched(core, "build_llm_adapter", boom))
        elif site in ("llm-adapter-ci-provider", "llm-adapter-build"):
            # the real construction fails by itself (CI refuses the provider / the fixture file is damaged)
            real = core.build_llm_adapter

            def counted(cfg):
                hits[site] += 1
                return real(cfg)
            st.enter_context(patched(core, "build_llm_adapter", counted))
        elif site == "hybrid-rerank":
            st.enter_context(patched(qual, "rerank_with_gel", boom))
        elif site == "fusion":
            st.enter_context(patched(qops, "fuse", boom))
        elif site == "mmr":
            st.enter_context(patched(qops, "maybe_apply_mmr", boom))
        elif site == "fusion-and-mmr":
            st.enter_context(patched(qops, "fuse", boom))
            st.enter_context(patched(qops, "maybe_apply_mmr", boom))
        elif site in ("quality-trace", "quality-trace-enabled-path"):
            st.enter_context(patched(qual, "_emit_quality_trace", boom))
        elif site == "cache-invalidate":
            st.enter_context(patched(cachem.CacheManager, "invalidate_namespace", boom))
        elif site in ("store-batch", "store-all", "store-some"):
            store = env.state["store"]
            real_apply = store.apply_deltas

            def faulty(gid, deltas):
                deltas = list(deltas)
                if deltas and isinstance(deltas[0], dict):
                    return real_apply(gid, deltas)
                i = store._c20_calls
                store._c20_calls += 1
                # store-all: every call fails; store-batch: the first call of the turn (the batch) fails, the per-delta
                # retries succeed
                # store-some: the batch fails and so does every second per-delta retry (the 1st, 3rd, ... delta)
                if site == "store-all" or i == 0 or (site == "store-some" and i % 2 == 1):
                    hits[site] += 1
                    raise exc(f"failpoint {site}")
                return real_apply(gid, deltas)

            store._c20_calls = 0
            store._c20_reset = lambda: setattr(store, "_c20_calls", 0)
            store.apply_deltas = faulty
            st.callback(lambda: setattr(store, "apply_deltas", real_apply))
        elif site == "sidecar":
            real_awt = snap.atomic_write_text

            def awt(path, text, **k):
                if str(path).endswith(".meta"):
                    hits[site] += 1
                    raise exc(f"failpoint {site}")
                return real_awt(path, text, **k)
            st.enter_context(patched(snap, "atomic_write_text", awt))
        yield


GARBAGE_NAMES = ["state_A.json", "state_zz.json", "snap_000009.json", "other.json"]


def plant_garbage(d, kind, rng, name=None):
    os.makedirs(d, exist_ok=True)
    p = os.path.join(d, name or rng.choice(GARBAGE_NAMES))
    if kind == "empty":
        open(p, "w").close()
    elif kind == "truncated":
        open(p, "w").write('{"version_etag": "7", "store": {"weights": [{"target_kind": "node", "target_')
    elif kind == "binary":
        open(p, "wb").write(bytes(rng.randrange(256) for _ in range(512)))
    elif kind == "array":
        open(p, "w").write("[1, 2, {\"version_etag\": \"9\"}]")
    elif kind == "delta-no-baseline":
        open(p, "w").write('{"schema":"snapshot:v1","mode":"delta","delta_of":"nope","etag_from":"nope","etag_to":"x","codec":"none","level":0}\n{"_ops":[{"op":"set","path":["a"],"value":1}]}')
    elif kind == "foreign":
        open(p, "w").write('{"schema_version": "v9", "data": [1, 2, 3], "items": {"k": "v"}}')
    elif kind == "bigline":
        open(p, "w").write('{"pad": "' + "x" * (2 * 1024 * 1024) + '"')
    elif kind == "dir":
        # not under the name the agent's own snapshot will be written to: the snapshot *body write* is not a
        # declared fail-soft site (a directory in its place makes os.replace fail)
        p = os.path.join(d, name if name and name != "state_A.json" else rng.choice(["state_zz.json", "snap_000009.json", "other.json"]))
        os.makedirs(p, exist_ok=True)
    elif kind == "scalar":
        open(p, "w").write("42")
    elif kind == "nul":
        open(p, "wb").write(b"\x00" * 100)
    elif kind == "header+list-body":
        open(p, "w").write('{"schema":"snapshot:v1","mode":"full","etag_to":"42","codec":"none","level":0}\n[1, 2, {"version_etag": "9"}]')
    elif kind == "header+scalar-body":
        open(p, "w").write('{"schema":"snapshot:v1","mode":"full","etag_to":"77","codec":"none","level":0}\n"just a string"')
    elif kind.startswith("stamped:"):
        import json as _json
        good_edge = {"src": "x1", "dst": "x2", "weight": 0.5, "rel": "coact", "attrs": {"coact": 1}}
        gel = {"nodes": {}, "edges": {"x1→x2": dict(good_edge)}, "meta": {"schema": "v1.1", "merges": [], "splits": [], "promotions": [], "concept_nodes_count": 0, "edges_count": 1}}
        store = {"weights": []}
        what = kind.split(":", 1)[1]
        if what == "edges-list":
            gel["edges"] = [dict(good_edge), 7, None]
        elif what == "edges-scalar":
            gel["edges"] = "oops"
        elif what == "edge-weight-null":
            gel["edges"]["x1→x2"]["weight"] = None
        elif what == "edge-weight-text":
            gel["edges"]["x1→x2"]["weight"] = "heavy"
        elif what == "edge-weight-object":
            gel["edges"]["x1→x2"]["weight"] = {"v": 1}
        elif what == "nodes-list":
            gel["nodes"] = [1, 2]
        elif what == "edge-attrs-null":
            gel["edges"]["x1→x2"]["attrs"] = None
        elif what == "edge-not-an-object":
            gel["edges"]["x1→x2"] = [1, 2]
        elif what == "meta-null":
            gel["meta"] = None
        elif what == "store-garbage":
            store = {"weights": [{"target_kind": "node"}, 5, None, {"target_kind": "node", "target_id": "n:a", "attr": "weight", "value": "x"}]}
        open(p, "w", encoding="utf-8").write(_json.dumps({"schema_version": "v1", "version_etag": "5", "graph_schema_version": "v1.1", "gel": gel, "graph": gel, "store": store}, ensure_ascii=False))


def gen_case(rng, sites=None, exc_i=None, garbage=None):
    from vlib.world import gen_world
    from vlib.cfggen import base_cfg, gen_turns

    world = gen_world(rng, ngraphs=(1, 2), neps=(6, 16))
    world["gel"] = (world.get("gel") or []) + [["x1", "x2", 0.9], ["x2", "x3", 0.1], ["x3", "x4", 0.9], ["y1", "y2", 0.8], ["y2", "y3", 0.7], ["y1", "y3", 0.9]]
    cfg = base_cfg(rng)
    cfg["t2"]["sim_threshold"] = -1.0
    cfg["t2"]["k_retrieval"] = max(4, cfg["t2"]["k_retrieval"])
    cfg["t4"]["snapshot_every_n_turns"] = 1
    cfg["t1"]["cache"] = {"enabled": False}
    cfg["t2"]["cache"] = {"enabled": False}
    t3_deny = rng.random() < 0.2  # stage switches of the base setup (same in the faulted and the baseline run)
    if rng.random() < 0.15:
        cfg["t4"]["enabled"] = False
    if sites is None:
        # combinations take at most one site per group whose off/idle baselines would contradict each other
# (the boot legs keep the hybrid reranker healthy in both runs, so hybrid-rerank shares their group)
        groups = [["boot-failpoint", "boot-garbage", "hybrid-rerank"], ["fusion", "mmr", "fusion-and-mmr", "quality-trace", "quality-trace-enabled-path"], ["llm-adapter-build", "llm-adapter-ci-provider"], ["store-batch", "store-all", "store-some"]]
        pool = [s for s in SITES if not any(s in g for g in groups)] + [rng.choice(g) for g in groups]
        sites = rng.sample(pool, rng.randint(2, 4))
    if sites == ["natural"]:
        # no injection: the guarded layers switched on at the edges of their settings and with very few hits, where a failure
        # would be of their own making (a wrong shape, an empty list, a zero weight)
        from vlib.cfggen import merge
        grid_ = exc_i if isinstance(exc_i, int) else rng.randrange(60)
        n_eps = [0, 1, 2, 3, 4][grid_ % 5]
        world["eps"] = world["eps"][:n_eps]
        for e_ in world["eps"]:
            e_["owner"] = "A"
        world["gel"] = [[a_, b_, w_] for a_, b_, w_ in ([[e1["id"], e2["id"], rng.choice([0.9, 0.2])] for e1 in world["eps"] for e2 in world["eps"] if e1["id"] < e2["id"]])]
        nat = {"t2": {"k_retrieval": [1, 2, 8][(grid_ // 5) % 3], "owner_scope": "any",
                      "hybrid": {"enabled": True, "use_graph": True, "anchor_top_m": rng.choice([1, 2, 8]), "walk_hops": rng.choice([1, 2]), "edge_threshold": rng.choice([0.0, 0.1, 1.0]),
                                 "lambda_graph": [0.0, 0.25, 0.0, 1.0][(grid_ // 15) % 4], "damping": rng.choice([0.0, 0.5, 1.0]), "degree_norm": rng.choice(["none", "invdeg"]),
                                 "max_bonus": rng.choice([0.0, 0.5, 10.0]), "k_max": rng.choice([1, 2, 128])},
                      "quality": {"enabled": rng.random() < 0.7, "shadow": rng.random() < 0.5, "fusion": {"alpha_semantic": rng.choice([0.0, 0.6, 1.0])},
                                  "mmr": {"enabled": rng.random() < 0.7, "lambda": rng.choice([0.0, 0.5, 1.0]), "k": rng.choice([1, 2, 8])}}},
               "graph": {"enabled": True, "coactivation_threshold": 0.0, "observe_top_k": rng.choice([1, 2, 8]), "pair_cap_per_obs": rng.choice([1, 64]),
                         "merge": {"enabled": True, "min_size": 2, "min_avg_w": 0.3, "max_diameter": 4, "cap_per_turn": rng.choice([1, 2])},
                         "split": {"enabled": True, "weak_edge_thresh": rng.choice([0.0, 0.3]), "min_component_size": 2, "cap_per_turn": 2},
                         "promotion": {"enabled": True, "label_mode": rng.choice(["lexmin", "concat_k"]), "attach_weight": 0.5, "cap_per_turn": 1}},
               "t3": {"allow_reflection": True, "reflection": {"backend": "rulebased", "summary_tokens": rng.choice([0, 1, 64]), "topk_snippets": rng.choice([0, 1, 3]), "embed": rng.random() < 0.5, "log": True}},
               "scheduler": {"budgets": {"time_ms_reflection": 10 ** 8, "ops_reflection": rng.choice([0, 1, 5])}},
               "perf": {"enabled": True, "metrics": {"report_memory": True}}}
        cfg = merge(cfg, nat)
        cfg["t2"]["sim_threshold"] = -1.0
        t3_deny = False
    if any(s_.startswith("store-") for s_ in sites):
        # a store fault is only telling when several approved deltas reach the store: the T4 filters stay wide open
        cfg["t4"].update({"churn_cap_edges": 64, "delta_norm_cap_l2": 100.0, "novelty_cap_per_node": 1.0})
        cfg["t4"].pop("cooldowns", None)
        if rng.random() < 0.7:
            # the commit's cache invalidation has something to do (and to report in the apply record)
            cfg["t4"]["cache_bust_mode"] = "on-apply"
            cfg["t4"]["cache"] = {"enabled": True, "namespaces": ["t2:semantic"]}
    turns = gen_turns(rng, world, n=(3, 4) if any(x.startswith(("boot", "reflect-")) for x in sites) else (2, 3), agents=("A",), plans=False)
    for t in turns:
        t["plan"] = {"ops": [{"kind": "Speak"}, {"kind": "EditGraph"}], "deltas": [["node", f"n:{x}", "weight", rng.choice([0.1, -0.2, 0.3]), 1]
                                # distinct targets (T4 merges repeated ones): a partially failing store needs three or more
                                # approved deltas to tell "continue with the others" from "stop at the first failure"
                                for x in rng.sample("abcd", rng.randint(3, 4) if any(s_.startswith("store-") for s_ in sites) else rng.randint(1, 3))],
                     "reflection": True}
    return {"world": world, "cfg": cfg, "turns": turns, "sites": list(sites), "exc": (exc_i % len(EXCS)) if exc_i is not None else rng.randrange(len(EXCS)),
            "garbage": (garbage[0] if garbage else rng.choice(GARBAGE)), "garbage_name": (garbage[1] if garbage else None), "seed": rng.randint(0, 10 ** 9), "t3_deny": t3_deny,
            "exc_msg": rng.choice(["text", "text", "empty", "noargs", "multiline", "non-str"]),
            # the subsystem works for the first turn(s) and starts failing later (baseline: healthy, then switched off at the
            # same turn); the caller keeps one ctx object per agent; what is wrong with the LLM fixture file
            "late": (rng.random() < 0.35 and all(s_ in LATE_OK or s_.startswith(("gel-", "reflect-")) for s_ in sites)),
            "reuse_ctx": rng.random() < 0.5, "fixture_damage": rng.choice(["nonexistent", "truncated-tail", "truncated-tail", "directory"])}


@contextlib.contextmanager
def _env_var(k, v):
    old = os.environ.get(k)
    os.environ[k] = v
    try:
        yield
    finally:
        if old is None:
            os.environ.pop(k, None)
        else:
            os.environ[k] = old


def run(case, faulted, sess):
    from vlib.turn import TurnEnv
    from vlib.cfggen import merge
    from vlib import bootstrap

    bootstrap.reset_globals()
    rng = random.Random(case["seed"])
    cfg = copy.deepcopy(case["cfg"])
    late = bool(case.get("late")) and len(case["turns"]) >= 2
    late_base = {}
    fx_dir = None
    for s in case["sites"]:
        on, base = site_cfgs(s, random.Random(f"{case['seed']}/{s}"))
        if s == "llm-adapter-build" and case.get("fixture_damage", "nonexistent") != "nonexistent":
            # a real fixture path that cannot be turned into an adapter: a file with sound first records and a line cut off
            # in the middle, or a directory
            import tempfile
            fx_dir = tempfile.mkdtemp(prefix="c20fx_", dir="/var/tmp")
            fx_path = os.path.join(fx_dir, "fixtures.jsonl")
            if case["fixture_damage"] == "directory":
                os.mkdir(fx_path)
            else:
                with open(fx_path, "w", encoding="utf-8") as f_:
                    for j_ in range(3):
                        f_.write('{"prompt_hash": "%064x", "completion": "{\\"plan\\": [], \\"rationale\\": \\"r\\"}"}\n' % j_)
                    f_.write('{"prompt_hash": "%064x", "compl' % 9)
            on = merge(on, {"t3": {"llm": {"fixtures": {"path": fx_path}}}})
        cfg = merge(cfg, on if (faulted or late) else base)
        if late:
            late_base = merge(late_base, base)
    boot = any(s.startswith("boot") for s in case["sites"])
    if any(s.startswith("gel-") for s in case["sites"]) and not boot and "hybrid-rerank" not in case["sites"] and case["seed"] % 2:
        # the graph-aware reranker healthy in both runs: what the GEL edges weigh after the turn shows in the next turn's T2 record
        # ... with edges that lose half their weight every turn and a threshold most of them cross within two turns
        extra_ = {"t2": {"hybrid": {"enabled": True, "use_graph": True, "edge_threshold": 0.3, "lambda_graph": 1.0, "k_max": 128, "anchor_top_m": 8, "walk_hops": 1, "max_bonus": 10.0}},
                  "graph": {"decay": {"half_life_turns": 1, "floor": 0.0}}}
        cfg = merge(cfg, extra_)
        if late:
            late_base = merge(late_base, extra_)  # the later switch-off keeps these settings
    world = copy.deepcopy(case["world"])
    if boot:
        world["gel"] = None  # a state that has not booted yet carries no GEL graph (the loader installs the containers)
    try:
        env = TurnEnv(cfg, world, boot_loaded=not boot)
    except Exception as ex:
        return {"rejected": str(ex)[:150]}
    exc_type = EXCS[case["exc"]]
    style = case.get("exc_msg", "text")

    def exc(msg):  # the shape of the exception's arguments is part of "all exception types raised there"
        if style == "empty":
            return exc_type("")
        if style == "noargs":
            return exc_type()
        if style == "multiline":
            return exc_type("first line\nsecond line\n" + "x" * 500)
        if style == "non-str":
            return exc_type(7, {"code": 1})
        return exc_type(msg)
    hits = {}
    env._c20_natural_llm = fx_dir is not None
    if any(s_ in ("reflect-compute", "reflect-write") for s_ in case["sites"]) and "reflect-telemetry" not in case["sites"]:
        # reflection writes land in the index the retrieval stage reads (a healthy reflection before the failure leaves its
        # entries there in both runs; a failing one must leave nothing)
        env.state["memory_index"] = env.state["mem_index"]
        wired = True
    else:
        wired = False
    cwd0 = os.getcwd()
    with env:
      os.chdir(env.base)  # relative artefact paths of the engine (quality traces under ./logs) land in the private directory
      try:
        return _run_in_env(case, faulted, sess, env, rng, exc, hits, boot, late, late_base, fx_dir, wired)
      finally:
        os.chdir(cwd0)


def _run_in_env(case, faulted, sess, env, rng, exc, hits, boot, late, late_base, fx_dir, wired):
    if True:
        if boot:
            # the boot loader replaces state.graph; deliver preloaded GEL edges is not needed here
            if faulted and "boot-garbage" in case["sites"]:
                plant_garbage(env.snap_dir, case["garbage"], rng, case.get("garbage_name"))
        # plans that use deltas need the store double: store faults are installed per env
        stack = contextlib.ExitStack()
        with stack:
            if faulted and not late:
                for s in case["sites"]:
                    stack.enter_context(install(s, exc, hits, env))
            elif not faulted:
                if "store-some" in case["sites"]:
                    # idle for exactly the failing deltas: the batch applies only the 2nd, 4th, ... approved delta
                    env.state["store"].apply_deltas = (lambda real: (lambda gid, deltas: real(gid, deltas) if (list(deltas) and isinstance(list(deltas)[0], dict)) else real(gid, list(deltas)[1::2])))(env.state["store"].apply_deltas)
                if "store-all" in case["sites"]:
                    # idle store: every call is a no-op reporting zero edits
                    env.state["store"].apply_deltas = (lambda real: (lambda gid, deltas: real(gid, deltas) if (list(deltas) and isinstance(list(deltas)[0], dict)) else {"edits": 0, "clamps": 0}))(env.state["store"].apply_deltas)
            if case.get("t3_deny"):
                stack.enter_context(_env_var("CLEMATIS_T3_DENY", "1"))  # the documented kill switch of the planning stage
            ctxs = {}
            late_at = (case.get("late_at") or (1 + (case["seed"] % (len(case["turns"]) - 1)))) if late else None
            for ti_, t in enumerate(case["turns"]):
                if late and ti_ == late_at:
                    if faulted:
                        for s in case["sites"]:
                            stack.enter_context(install(s, exc, hits, env))
                    else:
                        _merge_into(env.cfg, late_base)  # the subsystem switched off from this turn on
                if faulted and hasattr(env.state.get("store"), "_c20_reset"):
                    env.state["store"]._c20_reset()
                extra_ = None
                if "quality-trace" in case["sites"] and case["seed"] % 2 == 0:
                    # what the caller hands over as the trace reason is part of the trace layer's input: an object that cannot be
                    # rendered (the baseline, with tracing idle, never looks at it)
                    extra_ = {"trace_reason": _Unprintable()}
                r_ = env.run(t["agent"], t["text"], t["turn"], now_ms=t["now_ms"], plan=t.get("plan"), ctx_obj=ctxs.get(t["agent"]) if case.get("reuse_ctx") else None, ctx_extra=extra_)
                if case.get("reuse_ctx"):
                    ctxs[t["agent"]] = r_["ctx"]
        logs = env.logs()
        canon = {k: env.canon(v) for k, v in logs.items() if k in CANON}
        # the snapshot field of apply.jsonl names the file; with boot garbage named state_A.json nothing changes there
        if fx_dir:
            import shutil
            shutil.rmtree(fx_dir, ignore_errors=True)
        return {"canon": canon, "results": list(env.results), "hits": hits, "lines": [r_.get("line") for r_ in env.results],
                "reflection_index_is_retrieval_index": wired}


class _Unprintable:
    def __str__(self):
        raise RuntimeError("cannot render the trace reason")

    __repr__ = __str__

    def __bool__(self):
        raise RuntimeError("cannot test the trace reason")


def _merge_into(dst, over):
    for k_, v_ in (over or {}).items():
        if isinstance(v_, dict) and isinstance(dst.get(k_), dict):
            _merge_into(dst[k_], v_)
        else:
            dst[k_] = copy.deepcopy(v_)


def check_natural(case, sess: Session):
    f = run(case, False, sess)
    if "rejected" in f:
        sess.count("cfg_rejected_by_validator")
        sess.seen("rejections", f["rejected"])
        return
    sess.evaluations += 1
    sess.count("natural_boundary_scenarios")
    h = case["cfg"]["t2"]["hybrid"]
    sess.seen("natural_hybrid_settings", f"lambda={h['lambda_graph']} k_max={h['k_max']} hops={h['walk_hops']} eps={len(case['world']['eps'])}")
    bad = [r for r in f["results"] if r.get("exc")]
    if bad:
        sess.violation("exception-escaped-run_turn@natural-failure-in-a-guarded-layer", dict(case), {"exc": bad[0]["exc"][:200], "tb": bad[0].get("tb", "")[-400:],
                                                                                                 "hybrid": h, "episodes": len(case["world"]["eps"])})
        return
    n = len(case["turns"])
    short = {k: v.count(b"\n") for k, v in f["canon"].items() if k in ("t2.jsonl", "turn.jsonl", "apply.jsonl") and v.count(b"\n") != n}
    if short or "turn.jsonl" not in f["canon"]:
        sess.violation("canonical-records-missing@natural-failure-in-a-guarded-layer", dict(case), {"lines": short, "turns": n})
        return
    sess.nontrivial.add(chash(("natural", case["seed"])))


def check_case(case, sess: Session):
    if case["sites"] == ["natural"]:
        return check_natural(case, sess)
    f = run(case, True, sess)
    if "rejected" in f:
        sess.count("cfg_rejected_by_validator")
        sess.seen("rejections", f["rejected"])
        return
    sess.evaluations += 1
    sess.count("faulted_scenarios")
    sess.sample({"sites": case["sites"], "exception": EXCS[case["exc"]].__name__, "garbage": case["garbage"] if "boot-garbage" in case["sites"] else None,
                 "turns": case["turns"][:1], "failpoint_hits": f["hits"]})
    label = "+".join(case["sites"])
    single = case["sites"][0] if len(case["sites"]) == 1 else None
    for s in case["sites"]:
        sess.count("site:" + s)
    tcase = dict(case)
    exc_name = EXCS[case["exc"]].__name__
    bad = [r for r in f["results"] if r.get("exc")]
    if bad:
        where = single or label
        sess.violation(f"exception-escaped-run_turn@{where}", tcase, {"exc": bad[0]["exc"][:200], "raised": exc_name, "tb": bad[0].get("tb", "")[-300:]})
        return
    unhit = [s for s in case["sites"] if not f["hits"].get(s)]
    if unhit:
        sess.count("failpoint_not_reached")
        for s in unhit:
            sess.count("not_reached:" + s)
    else:
        sess.nontrivial.add(chash((label, exc_name, case["seed"])))
        sess.count("scenarios_with_all_failpoints_hit")
    for s, n in f["hits"].items():
        sess.count("failpoint_hits:" + s, n)
    b = run(case, False, sess)
    if "rejected" in b:
        return
    if any(r.get("exc") for r in b["results"]):
        sess.inconclusive_because("baseline run raised: " + str([r["exc"] for r in b["results"] if r.get("exc")][0])[:120])
        return
    sess.count("baseline_twins_compared")
    if "boot-garbage" in case["sites"] and case["garbage"] in PARTIAL:
        sess.count("partially_valid_snapshots_booted(turn completion only)")
        return
    if f.get("reflection_index_is_retrieval_index"):
        sess.count("scenarios_where_reflection_writes_into_the_retrieval_index")
    if case.get("late"):
        sess.count("scenarios_with_a_subsystem_failing_from_a_later_turn_on")
    if case.get("reuse_ctx"):
        sess.count("scenarios_with_one_ctx_object_per_agent")
    if f.get("lines") != b.get("lines"):
        where = single or label
        sess.violation(f"returned-line-differs-from-idle-baseline@{where}", tcase, {"faulted": [str(x)[:60] for x in f.get("lines", [])], "baseline": [str(x)[:60] for x in b.get("lines", [])], "raised": exc_name})
        return
    if f["canon"] != b["canon"]:
        from vlib.turn import _json_diff
        diffs = []
        for k in sorted(set(f["canon"]) | set(b["canon"])):
            x, y = f["canon"].get(k), b["canon"].get(k)
            if x == y:
                continue
            if x is None or y is None:
                diffs.append(f"{k}: only in {'baseline' if x is None else 'faulted'}")
                continue
            for i, (p, q) in enumerate(zip(x.split(b"\n"), y.split(b"\n"))):
                if p != q:
                    diffs.append(f"{k}[{i}]: " + _json_diff(p, q))
                    break
        where = single or label
        sess.violation(f"canonical-records-differ-from-idle-baseline@{where}", tcase, {"diffs": diffs[:4], "raised": exc_name})


def _chunk(args):
    tier, seed, i, jobs = args
    from vlib import bootstrap

    bootstrap.init()
    sess = Session.worker(PID, tier, seed)
    for j, job in enumerate(jobs):
        sites, exc_i = job[0], job[1]
        rng = random.Random(f"C20/{seed}/{i}/{j}")
        try:
            c_ = gen_case(rng, sites, exc_i, garbage=(job[2] if len(job) > 2 else None))
            if len(job) > 3 and job[3]:
                c_["exc_msg"] = job[3]
                c_["fixture_damage"] = "nonexistent"  # the injected exception (with this shape of arguments) is what fails
            if len(job) > 4 and job[4]:
                c_.update(job[4])
                if c_.get("late_at") is not None:
                    # what the subsystem left behind before it started failing must be able to show: wide retrieval, every
                    # stage on, turns after the failing one
                    c_["cfg"]["t2"].update({"owner_scope": "any", "k_retrieval": 16})
                    c_["cfg"]["t4"].pop("enabled", None)
                    c_["t3_deny"] = False
            check_case(c_, sess)
        except Exception as ex:
            import traceback
            sess.inconclusive_because(f"harness error {type(ex).__name__}: {ex} @ {traceback.format_exc()[-600:]}")
    return sess.export()


def main(tier: str, seed: int):
    sess = Session(PID, tier, seed, level="fault_enumeration", rule=RULE)
    sess.assume("declared fail-soft sites are those guarded in run_turn / apply_changes / apply_quality / the snapshot sidecar writer; GEL observe/tick and the snapshot body write are not declared fail-soft and are not faulted")
    sess.assume("canonical streams are compared with the perf metrics gate as configured identically in both runs; failpoints replace callees looked up by name at call time")
    rng = random.Random(f"C20/{seed}")
    plan = []
    ntypes = 3 if tier == "quick" else len(EXCS)
    reps = 2 if tier == "quick" else 20
    for s in SITES:
        types = rng.sample(range(len(EXCS)), ntypes)
        for e in types:
            for _ in range(reps if s != "boot-garbage" else max(reps, 5)):
                plan.append(([s], e))
        # every shape of exception arguments at every site (one exception type each in the quick tier)
        for style in ("empty", "noargs", "multiline", "non-str"):
            for e in (types[:1] if tier == "quick" else types):
                plan.append(([s], e, None, style))
    # the boot loader against every (kind of foreign file x file name) - which file wins the "latest" pick depends on both
    for rep in range(1 if tier == "quick" else 10):
        for gk in GARBAGE:
            for gn in GARBAGE_NAMES:
                plan.append((["boot-garbage"], rng.randrange(len(EXCS)), (gk, gn)))
    for _ in range(40 if tier == "quick" else 10000):
        plan.append((None, None))
    for s in OPTIONAL_SITES:
        for e in rng.sample(range(len(EXCS)), ntypes):
            for _ in range(reps):
                plan.append(([s], e))
    for g_ in range(60 if tier == "quick" else 6000):
        plan.append((["natural"], g_))  # the second field walks the grid of boundary settings
    # the subsystem works first and fails from a later turn on, on one ctx object per agent: every site that allows it
    for s in SITES:
        if s in LATE_OK or s.startswith(("gel-", "reflect-")):
            for rep in range((6 if s.startswith("reflect-") else 2) if tier == "quick" else 20):
                plan.append(([s], rng.randrange(len(EXCS)), None, None, {"late": True, "late_at": 1, "reuse_ctx": bool(rep % 2 == 0) or s.startswith("reflect-")}))
    rng.shuffle(plan)
    nj = par.NWORK
    for ex in par.pmap(_chunk, [(tier, seed, i, plan[i::nj]) for i in range(nj)]):
        sess.merge(ex)
    sess.extra["sites"] = SITES
    sess.extra["exception_types"] = [e.__name__ for e in EXCS]
    sess.extra["garbage_kinds"] = GARBAGE
    sess.require("faulted_scenarios", 120)
    sess.require("baseline_twins_compared", 100)
    sess.require("scenarios_with_all_failpoints_hit", 80)
    sess.require("natural_boundary_scenarios", 40)
    sess.require("scenarios_with_a_subsystem_failing_from_a_later_turn_on", 20)
    sess.require("scenarios_with_one_ctx_object_per_agent", 50)
    for s in SITES:
        sess.require("failpoint_hits:" + s, 1)
    sess.finish()


def replay(body, tier, seed):
    sess = Session(PID, tier, seed, rule=RULE, level="fault_enumeration")
    sess.replay_mode = True
    check_case(unjson(body["case"]), sess)
    return sess.finish(exit_process=False)
