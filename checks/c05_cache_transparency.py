"""C05 - Caches are transparent: a hit equals a fresh computation.

Twin execution.  A generated history is run on two engines over deep-copied worlds in one process:
C with every cache on (T1 stage cache, T2 stage cache - LRU+TTL or byte-bounded under perf -, turn-level
CacheManager) and U with t1.cache / t2.cache / t4.cache disabled.  After every turn the monitors compare
  * T1: graph_deltas + work counters (call-through wrapper on the orchestrator's t1_propagate hook),
  * T2 *as the turn used it* (call-through wrapper on core.make_plan_bundle, which receives the possibly
    cache-served result): retrieved ids, order, scores, residual deltas, k_used,
  * the utterance,
  * and, under owner_scope=agent, that every id C retrieved belongs to the asking agent,
ignoring only cache diagnostics (hit/miss counters, cache_used/enabled/hit/size, max_delta).
Histories are class-pure: ask, apply one kind of mutation (other agent, same-count edge replacement, node
label change, episode add, apply, kill-switch turn, a config change, a second state with equal graph ids
and counts, ...), ask again; a difference is attributed to (cache layer that served the hit, mutation kind).
The layer is identified from what the monitors saw: T1 cache_hits, a counting proxy around the T2 stage
cache object, the turn-level cache_hit flag.
"""
from __future__ import annotations

import copy
import random

from vlib import par
from vlib.session import Session, unjson, chash

PID = "C05"
RULE = ("one evaluation = one turn executed on both engines and compared; non-trivial = the cached engine served at least "
        "one hit (any layer) on that turn")
DIAG = {"cache_hits", "cache_misses", "cache_used", "cache_enabled", "cache_hit", "cache_size", "max_delta", "t1.cache_evictions", "t1.cache_bytes",
        "t2.cache_evictions", "t2.cache_bytes"}
KINDS = ["repeat", "other-agent", "edge-replace-same-count", "node-label-change", "episode-add", "apply", "kill-switch-turn", "cfg:k_retrieval", "cfg:ranking",
         "cfg:sim_threshold", "cfg:owner_scope", "cfg:now", "cfg:now-same-day", "cfg:residual_cap", "cfg:tiers", "cfg:exact_recent_days", "cfg:hybrid", "gel-edge-change",
         "cfg:t1.queue_budget", "cfg:t1.decay", "slice-cap", "switch-state", "node-add", "edge-add",
         "switch-state-reordered", "text-variant", "episode-readd-same-id", "slice-cap-t1", "index-clear-refill", "cfg:perf-master-with-t1-caps", "graph-apply-deltas", "replace-state", "fork-state", "turn-cache-off"]


def gen_history(rng, kind=None):
    from vlib.world import gen_world

    kind = kind or rng.choice(KINDS)
    world = gen_world(rng, ngraphs=(1, 2), neps=(6, 18))
    labs = [n[1] for g in world["graphs"].values() for n in g["nodes"] if n[1]] or ["hello"]
    texts = [" ".join(rng.sample(labs, min(len(labs), rng.randint(1, 2)))) for _ in range(2)]
    base = {"t2": {"owner_scope": rng.choice(["agent", "agent", "any", "Agent", "AGENT"]),  # the scope is matched case-insensitively "sim_threshold": rng.choice([-1.0, 0.0]), "k_retrieval": rng.choice([2, 4, 8]),
                   "ranking": {"alpha_sim": 0.75, "beta_recency": 0.2, "gamma_importance": 0.05}, "exact_recent_days": 30},
            "t4": {"cache_bust_mode": rng.choice(["on-apply", "none"]), "snapshot_every_n_turns": 1000}}
    t4_off = rng.random() < (0.8 if kind == "turn-cache-off" else 0.4) and kind not in ("apply", "kill-switch-turn")
    if t4_off:
        base["t4"]["enabled"] = False  # the state version never moves: the turn-level cache can serve hits
    variant = rng.choice(["lru", "lru", "bytes"])
    if variant == "bytes":
        base["perf"] = {"enabled": True, "t1": {"cache": {"max_entries": 32, "max_bytes": 100000}}, "t2": {"cache": {"max_entries": 32, "max_bytes": 1000000}}}
    if kind in ("cfg:hybrid", "gel-edge-change"):
        base["t2"]["hybrid"] = {"enabled": kind == "gel-edge-change", "lambda_graph": 1.0, "edge_threshold": 0.0, "max_bonus": 10.0}
        base["t2"]["k_retrieval"] = 8
    if kind == "cfg:perf-master-with-t1-caps":
        base["perf"] = {"enabled": rng.random() < 0.5, "t1": {"caps": {"frontier": rng.choice([1, 2]), "visited": rng.choice([1, 2, 100])}, "dedupe_window": rng.choice([1, 4])}}
        variant = "lru"
    if kind == "cfg:now-same-day":
        # episodes stamped around the edge of a one-day recency window and later the same day: a clock change of a
        # few hours moves them in/out of the window and changes their recency score
        import datetime as _dt
        base_t = _dt.datetime.fromtimestamp(1_700_000_000, tz=_dt.timezone.utc)
        for i, e in enumerate(world["eps"]):
            e["ts"] = (base_t - _dt.timedelta(hours=24 - (i % 12) * 0.9)).isoformat().replace("+00:00", "Z")
            e["owner"] = "A"
        base["t2"].update({"tiers": ["exact_semantic"], "exact_recent_days": 1, "owner_scope": "any", "k_retrieval": 8,
                           "ranking": {"alpha_sim": 0.2, "beta_recency": 1.0, "gamma_importance": 0.0}})
    base_t2_k = rng.choice([None, None, None, 1, 2]) if kind in ("repeat", "other-agent", "episode-add", "text-variant", "cfg:ranking", "gel-edge-change", "apply") else None
    if base_t2_k is not None:
        # a slice budget that binds: more hits than the slice may use
        base["t2"].update({"owner_scope": "any", "sim_threshold": -1.0, "k_retrieval": 8})
    ops = []
    agent = "A"
    for rnd in range(rng.randint(2, 5)):
        text = rng.choice(texts)
        ops.append({"op": "turn", "agent": agent, "text": text})
        if rng.random() < 0.5:
            ops.append({"op": "turn", "agent": agent, "text": text})  # plain repeat: must be served consistently
        # one mutation of the history's kind
        m = {"op": "mutate", "kind": kind, "r": rng.random(), "i": rng.randint(0, 10 ** 6)}
        ops.append(m)
        ag2 = agent
        if kind == "text-variant":
            # the same words spelled differently (case, runs of blanks): another query string for retrieval
            text = rng.choice([text.upper(), text.replace(" ", "  "), " " + text + " ", text.title(), text.replace(" ", "\t")])
        if kind in ("other-agent", "turn-cache-off"):
            ag2 = "B" if agent == "A" else "A"
        ops.append({"op": "turn", "agent": ag2, "text": text})
        agent = ag2
    raw_t1 = {}
    if kind == "switch-state-reordered" and rng.random() < 0.8:
        raw_t1 = {"relax_cap": rng.choice([1, 1, 2, 3])}
    return {"world": world, "cfg": base, "ops": ops, "kind": kind, "variant": variant, "raw_t1": raw_t1, "now_unset": rng.random() < (0.5 if kind.startswith("cfg:now") else 0.15),
            "base_t2_k": base_t2_k}


class CountingCache:
    """Delegating proxy around the process-global T2 stage cache object (counts hits)."""

    def __init__(self, inner):
        self._inner = inner
        self.hits = 0
        self.gets = 0

    def get(self, k):
        self.gets += 1
        r = self._inner.get(k)
        if r is not None:
            self.hits += 1
        return r

    def put(self, *a):
        return self._inner.put(*a)

    def __contains__(self, k):
        return k in self._inner

    def items(self):
        return self._inner.items()

    def __getattr__(self, k):
        return getattr(self._inner, k)


def strip(m):
    return {k: v for k, v in (m or {}).items() if k not in DIAG}


def apply_mutation(m, envs, world2, cfgs, slice_holder):
    """Apply the same mutation to both engines' states / configs."""
    from clematis.engine.types import Edge, Node
    kind, r = m["kind"], m["r"]
    for env, cfg in zip(envs, cfgs):
        st = env.state
        store = st["store"]
        gid = sorted(store._graphs)[0]
        g = store.get_graph(gid)
        if kind == "edge-replace-same-count" and g.edges:
            eid = sorted(g.edges)[m["i"] % len(g.edges)]
            e = g.edges[eid]
            store.upsert_edges(gid, [Edge(id=eid, src=e.src, dst=e.dst, weight=(0.0 if e.weight else 0.9), rel=e.rel)])
        elif kind == "node-label-change" and g.nodes:
            nid = sorted(g.nodes)[m["i"] % len(g.nodes)]
            store.upsert_nodes(gid, [Node(id=nid, label=("moon" if g.nodes[nid].label != "moon" else "river"))])
        elif kind == "node-add":
            store.upsert_nodes(gid, [Node(id=f"new{m['i']}", label="hello")])
        elif kind == "edge-add" and len(g.nodes) >= 2:
            ids = sorted(g.nodes)
            store.upsert_edges(gid, [Edge(id=f"newe{m['i']}", src=ids[0], dst=ids[-1], weight=1.0, rel="supports")])
        elif kind == "graph-apply-deltas" and g.edges:
            # the graph store's own delta API (dict deltas): an existing edge re-typed / re-weighted / re-routed, one field at a
            # time, or a node added
            eid = sorted(g.edges)[m["i"] % len(g.edges)]
            e = g.edges[eid]
            ids_ = sorted(g.nodes)
            how = int(r * 4) % 4
            dd = {"op": "upsert_edge", "id": eid, "src": e.src, "dst": e.dst, "weight": e.weight, "rel": e.rel}
            if how == 0:
                dd["rel"] = {"supports": "contradicts", "contradicts": "associates"}.get(e.rel, "supports")
            elif how == 1:
                dd["weight"] = 0.0 if e.weight else 0.9
            elif how == 2 and ids_:
                dd["dst"] = ids_[m["i"] % len(ids_)]
            else:
                dd = {"op": "upsert_node", "id": f"nn{m['i']}", "label": "hello"}
            store.apply_deltas(gid, [dd])  # the world-store double forwards dict deltas to the real graph store
        elif kind == "episode-add":
            from vlib.harness import build_index
            idx = st["mem_index"]
            tmp = build_index([{"id": f"epnew{m['i']}", "owner": "A", "text": "hello world moon river cat", "ts": "2023-11-14T00:00:00Z", "vec": "enc", "aux": {"importance": 1.0}}])
            idx.add(tmp._eps[0])
        elif kind == "episode-readd-same-id":
            # a memory is revised: an episode with an id that is already in the index is added again with another text / owner
            from vlib.harness import build_index
            idx = st["mem_index"]
            if idx._eps:
                old = idx._eps[m["i"] % len(idx._eps)]
                tmp = build_index([{"id": old.get("id"), "owner": ("B" if old.get("owner") == "A" else "A"), "text": "hello world moon river cat revised", "ts": "2023-11-14T00:00:00Z",
                                    "vec": "enc", "aux": {"importance": 1.0}}])
                idx.add(tmp._eps[0])
        elif kind == "index-clear-refill":
            # the memory is wiped and refilled with as many (other) episodes: the index's own version counter repeats
            from vlib.harness import build_index
            idx = st["mem_index"]
            n_ = len(idx._eps)
            idx.clear()
            tmp = build_index([{"id": f"re{m['i']}_{j}", "owner": "A", "text": f"hello world moon river cat refill {j}", "ts": "2023-11-14T00:00:00Z", "vec": "enc",
                                "aux": {"importance": 0.5}} for j in range(n_)])
            for e_ in tmp._eps:
                idx.add(e_)
        elif kind == "cfg:perf-master-with-t1-caps":
            cfg["perf"]["enabled"] = not cfg["perf"]["enabled"]
        elif kind == "gel-edge-change":
            ge = st.setdefault("graph", {"nodes": {}, "edges": {}, "meta": {}})["edges"]
            ids = sorted({e["id"] for e in st["mem_index"]._eps})
            if len(ids) >= 2:
                a, b = ids[m["i"] % len(ids)], ids[(m["i"] // 7 + 1) % len(ids)]
                if a != b:
                    k = f"{min(a, b)}→{max(a, b)}"
                    # edges appear, flip sign (the reranker works on |weight|), weaken and disappear
                    wv = [1.0, -1.0, 0.4, None, -0.6][(m["i"] // 3) % 5] if k in ge else [1.0, -1.0, -0.6][m["i"] % 3]
                    if wv is None:
                        ge.pop(k, None)
                    else:
                        ge[k] = {"id": k, "src": min(a, b), "dst": max(a, b), "weight": wv, "rel": "coact", "attrs": {}}
        elif kind == "turn-cache-off":
            # the turn-level cache switched off in the configuration while its manager (with entries) stays on the state; the
            # next ask comes from the other agent, and a memory is added too
            cfg["t4"].setdefault("cache", {})["enabled"] = False
            if m["i"] % 2:
                from vlib.harness import build_index
                tmp = build_index([{"id": f"tc{m['i']}", "owner": "A", "text": "hello world moon river cat", "ts": "2023-11-14T00:00:00Z", "vec": "enc", "aux": {"importance": 1.0}}])
                st["mem_index"].add(tmp._eps[0])
        elif kind == "cfg:k_retrieval":
            cfg["t2"]["k_retrieval"] = 1 if cfg["t2"]["k_retrieval"] != 1 else 8
        elif kind == "cfg:ranking":
            cfg["t2"]["ranking"]["alpha_sim"], cfg["t2"]["ranking"]["beta_recency"] = (0.0, 1.0) if cfg["t2"]["ranking"]["alpha_sim"] else (0.75, 0.2)
        elif kind == "cfg:sim_threshold":
            cfg["t2"]["sim_threshold"] = 0.15 if cfg["t2"]["sim_threshold"] < 0.1 else -1.0
        elif kind == "cfg:owner_scope":
            cfg["t2"]["owner_scope"] = {"agent": "world", "world": "any", "any": "agent"}[str(cfg["t2"]["owner_scope"]).lower()]
        elif kind == "cfg:residual_cap":
            cfg["t2"]["residual_cap_per_turn"] = 0 if cfg["t2"].get("residual_cap_per_turn", 32) else 32
        elif kind == "cfg:tiers":
            cfg["t2"]["tiers"] = ["archive"] if cfg["t2"].get("tiers") != ["archive"] else ["exact_semantic"]
        elif kind == "cfg:exact_recent_days":
            cfg["t2"]["exact_recent_days"] = 1 if cfg["t2"]["exact_recent_days"] != 1 else 365
            cfg["t2"]["tiers"] = ["exact_semantic"]
        elif kind == "cfg:hybrid":
            cfg["t2"]["hybrid"]["enabled"] = not cfg["t2"]["hybrid"]["enabled"]
        elif kind == "cfg:t1.queue_budget":
            cfg["t1"]["queue_budget"] = 1 if cfg["t1"].get("queue_budget", 10000) != 1 else 10000
        elif kind == "cfg:t1.decay":
            newd = {"mode": "attn_quad", "alpha": 5.0} if cfg["t1"].get("decay", {}).get("mode") != "attn_quad" else {"mode": "exp_floor", "rate": 0.6, "floor": 0.05}
            if m["i"] % 2 and isinstance(cfg["t1"].get("decay"), dict):
                # edited in place on the live configuration (same mapping objects), as a tuning console would
                cfg["t1"]["decay"].clear()
                cfg["t1"]["decay"].update(newd)
                em = cfg["t1"].get("edge_type_mult")
                if isinstance(em, dict):
                    em["supports"] = 0.2 if em.get("supports", 1.0) != 0.2 else 1.0
            else:
                cfg["t1"]["decay"] = newd
    if kind == "cfg:now":
        slice_holder["now_shift_days"] = 400 if not slice_holder.get("now_shift_days") else 0
    if kind == "cfg:now-same-day":
        slice_holder["now_shift_days"] = (slice_holder.get("now_shift_days", 0) + 0.2) % 0.9   # +4.8 h steps inside one UTC day
    if kind == "slice-cap":
        # the retrieval budget of the slice appears, tightens, loosens and disappears between the asks
        slice_holder["t2_k_step"] = slice_holder.get("t2_k_step", 0) + 1
        slice_holder["t2_k"] = [None, 0, None, 1, 2, 1, None][slice_holder["t2_k_step"] % 7]
    if kind == "slice-cap-t1":
        # per-slice propagation budgets appear / change / disappear between the asks
        slice_holder["t1"] = {0: {"t1_iters": 1}, 1: None, 2: {"t1_pops": 1}, 3: {"t1_iters": 2}, 4: {"t1_pops": 2, "t1_iters": 0}}[int(r * 5) % 5]


def check_history(case, sess: Session):
    import clematis.engine.orchestrator as orch
    import clematis.engine.orchestrator.core as core
    import clematis.engine.stages.t2.cache as t2c
    import clematis.engine.stages.t1 as t1m
    from vlib.turn import TurnEnv
    from vlib.harness import patched, deep_merge, NOW_MS
    from vlib import bootstrap

    bootstrap.reset_globals()
    kind = case["kind"]
    off = {"t1": {"cache": {"enabled": False}}, "t2": {"cache": {"enabled": False}}, "t4": {"cache": {"enabled": False}}}
    cfg_c = copy.deepcopy(case["cfg"])
    raw_t1 = case.get("raw_t1") or {}
    cfg_u = deep_merge(copy.deepcopy(case["cfg"]), off)
    if "perf" in cfg_u:
        # same perf master switch and caps, no byte-bounded caches
        cfg_u["perf"] = {k: copy.deepcopy(v) for k, v in cfg_u["perf"].items() if k not in ("t1", "t2")}
        for st_ in ("t1", "t2"):
            sub = {k: copy.deepcopy(v) for k, v in (case["cfg"]["perf"].get(st_) or {}).items() if k != "cache"}
            if sub:
                cfg_u["perf"][st_] = sub
    try:
        ec, eu = TurnEnv(cfg_c, copy.deepcopy(case["world"])), TurnEnv(cfg_u, copy.deepcopy(case["world"]))
    except Exception as ex:
        sess.count("cfg_rejected_by_validator")
        return
    with ec, eu:
        envs = {"C": [ec], "U": [eu]}
        for e_ in (ec, eu):
            for k_, v_ in raw_t1.items():  # keys the stage reads but the validator does not list (set after validation)
                e_.cfg["t1"][k_] = v_
        if kind == "switch-state-reordered":
            # a second engine state holding the SAME nodes / edges / episodes, inserted in the opposite order: propagation
            # walks out-edges in store order, so under a relaxation cap the two states legitimately give different results
            w2 = copy.deepcopy(case["world"])
            for g in w2["graphs"].values():
                g["edges"].reverse()
                g["nodes"].reverse()
            ec2, eu2 = TurnEnv(cfg_c, copy.deepcopy(w2), cfg_obj=ec.cfg), TurnEnv(cfg_u, copy.deepcopy(w2), cfg_obj=eu.cfg)
            ec2.__enter__(); eu2.__enter__()
            envs["C"].append(ec2)
            envs["U"].append(eu2)
        if kind == "fork-state":
            # a second environment per engine; its state becomes a deep copy of the first one's at the first mutation step
            # (i.e. after the first state has served turns), and both copies live on, each learning something different
            for name_, e0 in (("C", ec), ("U", eu)):
                f_ = TurnEnv(cfg_c if name_ == "C" else cfg_u, copy.deepcopy(case["world"]), cfg_obj=e0.cfg)
                f_.__enter__()
                envs[name_].append(f_)
        if kind == "switch-state":
            # a second, independent engine state per engine: same graph ids and node/edge counts, other content
            w2 = copy.deepcopy(case["world"])
            for g in w2["graphs"].values():
                for e in g["edges"]:
                    e[3] = 0.0 if e[3] else 0.9
                for n in g["nodes"]:
                    if n[1]:
                        n[1] = n[1]  # labels kept so that the same text seeds the same ids
            for e in w2["eps"]:
                e["text"] = e["text"] + " river moon"
            ec2, eu2 = TurnEnv(cfg_c, copy.deepcopy(w2), cfg_obj=ec.cfg), TurnEnv(cfg_u, copy.deepcopy(w2), cfg_obj=eu.cfg)
            ec2.__enter__(); eu2.__enter__()
            envs["C"].append(ec2)
            envs["U"].append(eu2)
        cur = 0
        holder = {}
        if case.get("base_t2_k") is not None and kind != "slice-cap":
            holder["t2_k"] = case["base_t2_k"]  # a slice budget below the number of hits, the same for every ask of the history
        extra_envs = []
        turn_no = 0
        muts_since = {}
        proxy_hits_prev = 0
        try:
            for oi, op in enumerate(case["ops"]):
                if op["op"] == "mutate":
                    if kind == "replace-state":
                        # the engine state is dropped and a brand-new one (same sizes, other content) takes its place: objects of
                        # the new state may land on the addresses of the dead one
                        import gc
                        w3 = copy.deepcopy(case["world"])
                        for g in w3["graphs"].values():
                            for e in g["edges"]:
                                e[3] = 0.0 if e[3] else 0.9
                        for e in w3["eps"]:
                            e["text"] = e["text"] + f" river moon {op['i'] % 7}"
                        from vlib.harness import reuse_address
                        for name_ in ("C", "U"):
                            old_env = envs[name_][0]
                            cfg_keep = old_env.cfg
                            old_ids = {k_: id(old_env.state.get(k_)) for k_ in ("mem_index", "store") if old_env.state.get(k_) is not None}
                            new_env = TurnEnv(cfg_c if name_ == "C" else cfg_u, copy.deepcopy(w3), cfg_obj=cfg_keep)
                            new_env.__enter__()
                            old_env.state.clear()
                            gc.collect()
                            # the new state's index / store objects re-created on the very addresses of the dead ones
                            for k_, oid in old_ids.items():
                                obj = reuse_address(oid, new_env.state[k_]) if name_ == "C" and hasattr(new_env.state.get(k_), "__dict__") else None
                                if obj is not None:
                                    new_env.state[k_] = obj
                                    sess.count("replace_state:" + k_ + "_on_the_dead_object's_address")
                            extra_envs.append(new_env)
                            envs[name_] = [new_env]
                        holder["pending"] = op
                        continue
                    if kind == "fork-state":
                        if not holder.get("forked"):
                            holder["forked"] = True
                            for name_ in ("C", "U"):
                                envs[name_][1].state = copy.deepcopy(envs[name_][0].state)
                        # odd steps: each copy learns something different (both indexes advance by one entry) and the same copy is
                        # asked again; even steps: the other copy - same number of entries, other content - is asked
                        from vlib.harness import build_index
                        holder["fork_step"] = holder.get("fork_step", 0) + 1
                        if holder["fork_step"] % 2 == 1:
                            for name_ in ("C", "U"):
                                for which, txt in ((0, "hello world moon river cat alpha"), (1, "hello world moon river cat omega")):
                                    tmp = build_index([{"id": f"fk{op['i']}_{which}", "owner": "A", "text": txt + f" {op['i'] % 5}", "ts": "2023-11-14T00:00:00Z", "vec": "enc", "aux": {"importance": 1.0}}])
                                    envs[name_][which].state["mem_index"].add(tmp._eps[0])
                        else:
                            cur = 1 - cur
                        holder["pending"] = op
                        continue
                    if kind in ("switch-state", "switch-state-reordered"):
                        cur = 1 - cur
                    elif kind == "text-variant":
                        pass
                    elif kind == "apply":
                        pass  # realised as the next turn carrying deltas
                    elif kind == "kill-switch-turn":
                        pass
                    else:
                        apply_mutation(op, [envs["C"][cur], envs["U"][cur]], None, [envs["C"][cur].cfg, envs["U"][cur].cfg], holder)
                    holder["pending"] = op
                    continue
                turn_no += 1
                now_ms = NOW_MS + int(holder.get("now_shift_days", 0) * 86400000)
                now_arg = None if case.get("now_unset") else "auto"  # the caller supplies only the millisecond clock
                plan = None
                pend = holder.pop("pending", None)
                extra_turn = None
                if pend is not None and kind == "apply":
                    extra_turn = {"plan": {"ops": [{"kind": "Speak"}, {"kind": "EditGraph"}], "deltas": [["node", "n:x", "weight", 0.2, 1]]}, "t4": True}
                if pend is not None and kind == "kill-switch-turn":
                    extra_turn = {"plan": None, "t4": False}
                res = {}
                for name in ("C", "U"):
                    env = envs[name][cur]
                    cap = {}

                    real_t1 = core._t1_propagate if hasattr(core, "_t1_propagate") else core.t1_propagate
                    real_mpb = core.make_plan_bundle

                    def t1w(ctx, state, text, _cap=cap):
                        r = real_t1(ctx, state, text)
                        _cap["t1"] = r
                        return r

                    def mpb(ctx, state, t1, t2, _cap=cap):
                        _cap["t2"] = t2
                        return real_mpb(ctx, state, t1, t2)

                    real_sy = core._should_yield

                    def syw(slice_ctx, consumed, _cap=cap, _real=real_sy):
                        # at a stage boundary of run_turn: the retrieval result the turn is working with (also when it came
                        # out of the turn-level cache and the turn yields before planning)
                        try:
                            import sys as _sys
                            t2v = _sys._getframe(1).f_locals.get("t2")
                            if t2v is not None and hasattr(t2v, "retrieved"):
                                _cap.setdefault("t2", t2v)
                        except Exception:
                            pass
                        return _real(slice_ctx, consumed)

                    real_t2 = orch.t2_semantic

                    def t2w(ctx, state, text, t1, _cap=cap, _real=real_t2):
                        # the stage result is also taken where the stage returns it: a turn that yields at the T2 boundary
                        # (slice budget used up) never reaches the plan bundle
                        r_ = _real(ctx, state, text, t1)
                        _cap.setdefault("t2", r_)
                        return r_

                    ctx_extra = {}
                    if holder.get("t2_k") is not None:
                        pass
                    if extra_turn is not None:
                        # an intermediate turn with other text: commits (or runs with the kill switch off) between the two asks
                        was = env.cfg["t4"].get("enabled", True)
                        env.cfg["t4"]["enabled"] = extra_turn["t4"]
                        env.run(op["agent"], "intermediate turn text", 900 + turn_no, now_ms=now_ms, now=now_arg, plan=extra_turn["plan"])
                        env.cfg["t4"]["enabled"] = was
                    if name == "C" and t2c._T2_CACHE is not None and not isinstance(t2c._T2_CACHE, CountingCache):
                        t2c._T2_CACHE = CountingCache(t2c._T2_CACHE)
                    h0 = t2c._T2_CACHE.hits if isinstance(t2c._T2_CACHE, CountingCache) else 0
                    if holder.get("t2_k") is not None:
                        # slice cap through the scheduler budgets (the documented way to set it)
                        env.cfg["scheduler"]["enabled"] = True
                        env.cfg["scheduler"]["budgets"]["t2_k"] = holder["t2_k"]
                        env.cfg["scheduler"]["quantum_ms"] = 10 ** 6
                        env.cfg["scheduler"]["budgets"]["wall_ms"] = 10 ** 6
                        for k_ in ("t1_pops", "t1_iters", "t3_ops"):
                            env.cfg["scheduler"]["budgets"][k_] = None
                    elif kind == "slice-cap":
                        env.cfg["scheduler"]["enabled"] = False
                    if kind == "slice-cap-t1":
                        if holder.get("t1"):
                            env.cfg["scheduler"]["enabled"] = True
                            env.cfg["scheduler"]["quantum_ms"] = 10 ** 6
                            env.cfg["scheduler"]["budgets"]["wall_ms"] = 10 ** 6
                            for k_ in ("t1_pops", "t1_iters", "t3_ops", "t2_k"):
                                env.cfg["scheduler"]["budgets"][k_] = holder["t1"].get(k_)
                        else:
                            env.cfg["scheduler"]["enabled"] = False
                    with patched(orch, "t1_propagate", t1w), patched(core, "make_plan_bundle", mpb), patched(orch, "t2_semantic", t2w), patched(core, "_should_yield", syw):
                        r = env.run(op["agent"], op["text"], turn_no, now_ms=now_ms, now=now_arg)
                    h1 = t2c._T2_CACHE.hits if isinstance(t2c._T2_CACHE, CountingCache) else 0
                    rec2 = env.records("t2.jsonl")[-1] if env.records("t2.jsonl") else {}
                    res[name] = {"r": r, "t1": cap.get("t1"), "t2": cap.get("t2"), "t2_stage_hits": h1 - h0, "turn_hit": bool(rec2.get("cache_hit"))}
                sess.evaluations += 1
                sess.count("twin_turns")
                if oi == len(case["ops"]) - 1:
                    sess.sample({"mutation_kind": kind, "cache_variant": case["variant"], "cfg": case["cfg"], "ops": case["ops"]})
                tcase = {"world": case["world"], "cfg": case["cfg"], "ops": case["ops"][:oi + 1], "kind": kind, "variant": case["variant"], "raw_t1": raw_t1, "now_unset": case.get("now_unset"), "base_t2_k": case.get("base_t2_k")}
                c, u = res["C"], res["U"]
                if c["r"]["exc"] or u["r"]["exc"]:
                    if bool(c["r"]["exc"]) != bool(u["r"]["exc"]):
                        sess.violation("exception-only-in-one-engine", tcase, {"C": c["r"]["exc"], "U": u["r"]["exc"]})
                    else:
                        sess.count("turns_raising_in_both_engines")
                    return
                t1_hits = int((c["t1"].metrics or {}).get("cache_hits", 0)) if c["t1"] is not None else 0
                layers = []
                if t1_hits:
                    layers.append("t1-stage")
                    sess.count("hits_served:t1-stage")
                if c["turn_hit"]:
                    layers.append("turn-level")
                    sess.count("hits_served:turn-level")
                elif c["t2_stage_hits"]:
                    layers.append("t2-stage")
                    sess.count("hits_served:t2-stage")
                    if holder.get("t2_k") is not None and u["t2"] is not None and len(u["t2"].retrieved) > int(holder["t2_k"]):
                        sess.count("hits_served:t2-stage(under a binding slice budget)")
                for l_ in layers:
                    sess.seen("hits_observed(layer, mutation kind)", (l_, kind))
                if layers:
                    sess.nontrivial.add(chash((kind, oi, case["ops"][oi]["text"], case["variant"])))
                # --- compare
                d1 = None
                if c["t1"] is not None and u["t1"] is not None:
                    if c["t1"].graph_deltas != u["t1"].graph_deltas or strip(c["t1"].metrics) != strip(u["t1"].metrics):
                        d1 = {"C": [c["t1"].graph_deltas[:6], strip(c["t1"].metrics)], "U": [u["t1"].graph_deltas[:6], strip(u["t1"].metrics)]}
                d2 = None
                if c["t2"] is not None and u["t2"] is not None:
                    sig = lambda t: ([(x.id, round(float(x.score), 9)) for x in t.retrieved], t.graph_deltas_residual, (t.metrics or {}).get("k_used"), (t.metrics or {}).get("k_returned"))
                    if sig(c["t2"]) != sig(u["t2"]):
                        d2 = {"C": sig(c["t2"]), "U": sig(u["t2"])}
                elif (c["t2"] is None) != (u["t2"] is None):
                    d2 = {"C": c["t2"] is not None, "U": u["t2"] is not None}
                # owner leak check on what C used
                if c["t2"] is not None and str(envs["C"][cur].cfg["t2"].get("owner_scope")).lower() == "agent":
                    owners = {}
                    for e in envs["C"][cur].state["mem_index"]._eps:  # an id may occur several times (revised memories)
                        owners.setdefault(str(e.get("id")), set()).add(e.get("owner"))
                    leak = [x.id for x in c["t2"].retrieved if owners.get(x.id) and None not in owners[x.id] and op["agent"] not in owners[x.id]]
                    if leak:
                        layer = "turn-level" if c["turn_hit"] else ("t2-stage" if c["t2_stage_hits"] else "no-hit")
                        sess.violation(f"{layer}:owner-scoped-memories-served-to-another-agent", tcase, {"agent": op["agent"], "leaked": leak[:4]})
                if d1 is not None:
                    layer = "t1-stage" if t1_hits else "no-hit"
                    sess.violation(f"{layer}:{kind}:t1-result-differs", tcase, d1)
                if d2 is not None:
                    layer = "turn-level" if c["turn_hit"] else ("t2-stage" if c["t2_stage_hits"] else ("t1-stage(propagated)" if d1 is not None else "no-hit"))
                    sess.violation(f"{layer}:{kind}:t2-result-differs", tcase, d2)
                if c["r"]["line"] != u["r"]["line"] and d1 is None and d2 is None:
                    sess.violation(f"utterance-differs:{kind}", tcase, {"C": c["r"]["line"], "U": u["r"]["line"]})
                if d1 is not None or d2 is not None:
                    return  # states have diverged; stop this history
        finally:
            if kind in ("switch-state", "switch-state-reordered", "fork-state"):
                for e in (envs["C"][1], envs["U"][1]):
                    e.__exit__(None, None, None)
            for e in extra_envs:
                e.__exit__(None, None, None)


def _chunk(args):
    tier, seed, i, n = args
    from vlib import bootstrap

    bootstrap.init()
    rng = random.Random(f"C05/{seed}/{i}")
    sess = Session.worker(PID, tier, seed)
    for j in range(n):
        try:
            check_history(gen_history(rng, KINDS[(i * n + j) % len(KINDS)]), sess)
        except Exception as ex:
            import traceback
            sess.inconclusive_because(f"harness error {type(ex).__name__}: {ex} @ {traceback.format_exc()[-600:]}")
    return sess.export()


def main(tier: str, seed: int):
    sess = Session(PID, tier, seed, level="exploration", rule=RULE)
    sess.assume("cache TTLs are not crossed inside a history (TTL expiry on the injected clock is C15's subject)")
    sess.assume("histories are class-pure (one mutation kind each) so that a difference is attributable to (cache layer, mutation kind)")
    total = 420 if tier == "quick" else 30000
    nchunks = par.NWORK
    per = max(1, total // nchunks)
    for ex in par.pmap(_chunk, [(tier, seed, i, per) for i in range(nchunks)]):
        sess.merge(ex)
    sess.require("twin_turns", 300)
    sess.require("hits_served:t1-stage", 50)
    sess.require("hits_served:turn-level", 30)
    sess.require("hits_served:t2-stage", 10)
    sess.require("replace_state:mem_index_on_the_dead_object's_address", 3)
    sess.require("hits_served:t2-stage(under a binding slice budget)", 3)
    sess.finish()


def replay(body, tier, seed):
    sess = Session(PID, tier, seed, rule=RULE)
    sess.replay_mode = True
    check_history(unjson(body["case"]), sess)
    return sess.finish(exit_process=False)
