"""C18 - GEL edge weights stay bounded, decay monotonically, keys canonical.

Monitors on the real gel.observe_retrieval / tick / merge / split / promotion, driven over generated
histories under validator-accepted graph configs:
  (1) invariant walk over state["graph"] after every operation (coact weights inside the clamp
      interval, canonical min->max key, one edge per unordered pair, finite weights);
  (2) reference model for observe (threshold, sort (-score,id), top-k, pair cap, additive /
      proportional update, clamp, coact / last_seen bookkeeping) and for tick (w*0.5^(dt/hl), drop
      iff |w'| < floor, never a larger magnitude) - whole edge map and returned metrics compared exactly;
  (3) permutation twin for observe (shuffled item list on a deep copy => identical graph + metrics);
  (4) before/after fingerprints: merge/split change neither nodes nor edges; promotion only adds
      concept nodes / concept edges and applying the same promotions twice changes nothing more;
      with the gate off every operation leaves the state untouched (no graph container created).
"""
from __future__ import annotations

import copy
import math
import random
from types import SimpleNamespace as NS

from vlib import par
from vlib.harness import to_ad, validated
from vlib.session import Session, unjson, chash

PID = "C18"
RULE = ("one evaluation = one GEL operation inside a generated history, judged by invariants + model + twins; "
        "non-trivial = the operation changed at least one edge (update, decay, drop) or attached a concept")
ARROW = "→"


def gen_cfg(rng):
    lo, hi = rng.choice([(-1.0, 1.0), (-1.0, 1.0), (0.0, 1.0), (-0.5, 0.5), (0.0, 0.05), (-1.0, 0.0), (-2.0, 3.0), (0.3, 0.5), (-0.5, -0.3)])
    g = {"enabled": True, "coactivation_threshold": rng.choice([0.0, 0.2, 0.2, 0.5, 1.0]),
         "observe_top_k": rng.choice([1, 2, 3, 5, 64]), "pair_cap_per_obs": rng.choice([0, 1, 2, 5, 2048]),
         "update": {"mode": rng.choice(["additive", "proportional"]), "alpha": rng.choice([1e-6, 0.02, 0.3, 1.0, 10.0]), "clamp_min": lo, "clamp_max": hi},
         "decay": {"half_life_turns": rng.choice([1, 2, 10, 200, 10 ** 6]), "floor": rng.choice([0.0, 0.0, 0.01, 0.05, 0.3])},
         "merge": {"enabled": True, "min_size": rng.choice([2, 3]), "min_avg_w": rng.choice([0.0, 0.2, 0.5]), "max_diameter": rng.choice([1, 2, 4]), "cap_per_turn": rng.choice([0, 1, 4])},
         "split": {"enabled": True, "weak_edge_thresh": rng.choice([0.0, 0.05, 0.2]), "min_component_size": 2, "cap_per_turn": rng.choice([0, 1, 4])},
         "promotion": {"enabled": True, "label_mode": rng.choice(["lexmin", "concat_k"]), "topk_label_ids": rng.choice([1, 3]),
                       "attach_weight": rng.choice([0.5, -0.5, 1.0, 0.0]), "cap_per_turn": rng.choice([0, 1, 2])}}
    return g


def gen_items(rng, ids, sep_class):
    n = rng.randint(0, 7)
    out = []
    for _ in range(n):
        i = rng.choice(ids)
        s = rng.choice([0.0, 0.1, 0.2, 0.2, 0.5, 0.5, 0.9, 1.0, 1.0000001, -0.3, float("nan"), float("inf"), float("-inf")])
        shape = rng.choice(["tuple", "dict", "obj", "dict2"])
        out.append([shape, i, s])
    return out


def mk_items(spec):
    out = []
    for shape, i, s in spec:
        if shape == "tuple":
            out.append((i, s))
        elif shape == "dict":
            out.append({"id": i, "score": s})
        elif shape == "dict2":
            out.append({"episode_id": i, "similarity": s})
        else:
            out.append(NS(id=i, score=s))
    return out


def gen_case(rng, long=False):
    sep = rng.random() < 0.12
    ids = ["a", "b", "c", "d", "e", "ep10", "ep2", "É"]
    if rng.random() < 0.3:
        ids = ["a", "A", "b", "B", "ep7", "Ep7", "EP7", "é", "É", "ß", "ss", "c::k", "C::K"]  # ids that differ only in case
    if sep:
        ids = ["a", "b", "c", "a" + ARROW + "b", "b" + ARROW + "c"] + ([ARROW] if rng.random() < 0.3 else [])
    cfg = gen_cfg(rng)
    ops = []
    for _ in range(rng.randint(10, 200 if long else 40)):
        r = rng.random()
        if r < 0.5:
            ops.append(["observe", gen_items(rng, ids, sep), rng.choice([None, 1, 7])])
        elif r < 0.8:
            ops.append(["tick", rng.choice([0, 1, 1, 2, 5, -1]), rng.choice([None, 3])])
        elif r < 0.87:
            ops.append(["merge"])
        elif r < 0.93:
            ops.append(["split"])
        elif r < 0.97 or sep:
            ops.append(["promote"])
        else:
            ops.append(["persist"])  # the graph goes through a snapshot (written, loaded into a fresh state) and the history goes on
    return {"cfg": cfg, "ops": ops, "sep": sep, "gate_off_probe": rng.random() < 0.3}


# ---------------------------------------------------------------------------- model
def ekey(a, b):
    a, b = str(a), str(b)
    s, d = (a, b) if a <= b else (b, a)
    return f"{s}{ARROW}{d}", s, d


def clamp(x, lo, hi):
    return hi if x > hi else lo if x < lo else x


def model_observe(edges, spec, g, turn):
    thr, topk, cap = float(g["coactivation_threshold"]), int(g["observe_top_k"]), int(g["pair_cap_per_obs"])
    mode, alpha = g["update"]["mode"], float(g["update"]["alpha"])
    lo, hi = float(g["update"]["clamp_min"]), float(g["update"]["clamp_max"])
    norm = [(str(i), float(s)) for _, i, s in spec]
    k_in = len(norm)
    norm = [(i, s) for i, s in norm if s >= thr]
    norm.sort(key=lambda t: (-t[1], t[0]))
    used = norm[:topk]
    n = 0
    if used and cap != 0:
        left = cap
        for x in range(len(used)):
            for y in range(x + 1, len(used)):
                if left <= 0:
                    break
                k, s, d = ekey(used[x][0], used[y][0])
                rec = edges.get((s, d))  # the model is keyed by the unordered pair itself, not by a joined string
                if rec is None:
                    rec = {"id": k, "src": s, "dst": d, "weight": 0.0, "rel": "coact", "updated_at": None, "attrs": {"coact": 0, "last_seen_turn": None}}
                    edges[(s, d)] = rec
                w = float(rec.get("weight", 0.0))
                if mode == "proportional":
                    w = clamp(w + alpha * (1.0 - min(abs(w), 1.0)), lo, hi)
                else:
                    w = clamp(w + alpha, lo, hi)
                rec["weight"] = w
                at = rec.setdefault("attrs", {})
                at["coact"] = int(at.get("coact", 0)) + 1
                if turn is not None:
                    at["last_seen_turn"] = int(turn)
                n += 1
                left -= 1
    return {"k_in": k_in, "k_used": len(used), "pairs_updated": n}


def model_tick(edges, dt, g, turn):
    hl, floor = float(g["decay"]["half_life_turns"]), float(g["decay"]["floor"])
    if not edges:
        return {"decayed_edges": 0, "dropped_edges": 0}
    f = 0.5 ** (float(max(0, int(dt))) / hl) if hl > 0 else 0.0
    dec = drop = 0
    for k in list(edges):
        rec = edges[k]
        w = float(rec.get("weight", 0.0))
        w2 = w * f
        if abs(w2) < floor:
            del edges[k]
            drop += 1
        else:
            if w2 != w:
                rec["weight"] = w2
                dec += 1
            at = rec.setdefault("attrs", {})
            if at.get("last_seen_turn") is None and turn is not None:
                at["last_seen_turn"] = int(turn)
    return {"decayed_edges": dec, "dropped_edges": drop}


def norm_edges(edges):
    out = {}
    for k, r in edges.items():
        out[(str(r.get("src")), str(r.get("dst")))] = (r.get("id"), r.get("src"), r.get("dst"), repr(float(r.get("weight", 0.0))), r.get("rel"),
                  tuple(sorted((r.get("attrs") or {}).items(), key=lambda kv: kv[0])))
    return out


def walk_invariants(graph, g, sess, case, i, sep):
    edges = graph.get("edges", {})
    lo, hi = float(g["update"]["clamp_min"]), float(g["update"]["clamp_max"])
    pairs = {}
    for k, r in edges.items():
        s, d = str(r.get("src")), str(r.get("dst"))
        w = float(r.get("weight", 0.0))
        kk = ekey(s, d)[0]
        if not (k == kk and r.get("id") == k and s <= d):
            sess.violation("key-not-canonical", case, {"op": i, "key": k, "src": s, "dst": d})
        pr = (s, d)
        if pr in pairs:
            sess.violation("two-edges-for-one-pair", case, {"op": i, "keys": [pairs[pr], k]})
        pairs[pr] = k
        if r.get("rel") == "coact":
            if math.isnan(w) or w < lo or w > hi:
                mech = "weight-outside-clamp"
                if lo > 0 or hi < 0:
                    mech = "weight-outside-clamp:clamp-interval-excludes-0"
                sess.violation(mech, case, {"op": i, "key": k, "w": w, "lo": lo, "hi": hi})
    if not sep:
        # ids without the separator: the key decomposes uniquely into its endpoints
        for k, r in edges.items():
            if k.count(ARROW) != 1:
                sess.violation("key-not-canonical", case, {"op": i, "key": k})


def check_case(case, sess: Session):
    import clematis.engine.gel as gel

    try:
        full = validated({"graph": copy.deepcopy(case["cfg"])})
    except Exception as ex:
        sess.count("cfg_rejected_by_validator")
        sess.seen("rejections", str(ex)[:100])
        return
    g = full["graph"]
    cfg = to_ad(full)
    ctx = NS(cfg=cfg, config=cfg)
    state = {}
    medges = {}
    sep = case["sep"]
    excl0 = float(g["update"]["clamp_min"]) > 0 or float(g["update"]["clamp_max"]) < 0
    rng = random.Random(chash(case["cfg"]))
    if case.get("gate_off_probe"):
        off = copy.deepcopy(full)
        off["graph"]["enabled"] = False
        octx = NS(cfg=to_ad(off), config=to_ad(off))
        for st0 in ({}, {"graph": {"nodes": {}, "edges": {"a→b": {"id": "a→b", "src": "a", "dst": "b", "weight": 0.4, "rel": "coact", "attrs": {}}}, "meta": {}}}):
            st = copy.deepcopy(st0)
            gel.observe_retrieval(octx, st, [("a", 0.9), ("b", 0.9), ("c", 0.9)], turn=1)
            gel.tick(octx, st, decay_dt=3, turn=1)
            mc = gel.merge_candidates(octx, st)
            gel.apply_merge(octx, st, {"nodes": ["a", "b"], "size": 2})
            gel.split_candidates(octx, st)
            gel.apply_split(octx, st, {"original": ["a", "b"], "parts": [["a"], ["b"]]})
            pc = gel.promote_clusters(octx, st, [{"nodes": ["a", "b"]}])
            gel.apply_promotion(octx, st, {"concept_id": "c::a", "label": "a", "members": ["a", "b"], "attach_weight": 0.5})
            sess.count("gate_off_probes")
            sess.evaluations += 1
            if st != st0 or mc or pc:
                sess.violation("gate-off-state-touched", {"cfg": case["cfg"], "state0": st0}, {"after": st, "mc": mc, "pc": pc})
    for i, op in enumerate(case["ops"]):
        tcase = {"cfg": case["cfg"], "ops": case["ops"][:i + 1], "sep": sep, "gate_off_probe": False}
        kind = op[0]
        before = copy.deepcopy(state.get("graph", {"nodes": {}, "edges": {}}))
        sess.evaluations += 1
        sess.count("gel_operations")
        if i == 3:
            sess.sample({"graph_cfg": case["cfg"], "ops": case["ops"][:4], "ids_contain_separator": sep})
        try:
            if kind == "observe":
                items = mk_items(op[1])
                # permutation twin
                st2 = copy.deepcopy(state)
                it2 = mk_items(op[1])
                rng.shuffle(it2)
                m = gel.observe_retrieval(ctx, state, items, turn=op[2], agent="A")
                m2 = gel.observe_retrieval(ctx, st2, it2, turn=op[2], agent="A")
                sess.count("observe_calls")
                if norm_edges(st2["graph"]["edges"]) != norm_edges(state["graph"]["edges"]) or m != m2:
                    sess.violation("observe-order-dependent", tcase, {"m": m, "m2": m2})
                mm = model_observe(medges, op[1], g, op[2])
                if {k: m[k] for k in mm} != mm:
                    sess.violation("model:observe-metrics", tcase, {"real": m, "model": mm})
                if m["pairs_updated"] > int(g["pair_cap_per_obs"]):
                    sess.violation("pair-cap-exceeded", tcase, m)
                if m["k_used"] > int(g["observe_top_k"]):
                    sess.violation("top-k-exceeded", tcase, m)
                if m["pairs_updated"]:
                    sess.nontrivial.add(chash((i, op, case["cfg"]["update"])))
                    sess.count("observations_that_updated_pairs")
            elif kind == "tick":
                m = gel.tick(ctx, state, decay_dt=op[1], turn=op[2], agent="A")
                sess.count("tick_calls")
                mm = model_tick(medges, op[1], g, op[2])
                if {k: m[k] for k in mm} != mm:
                    sess.violation("model:tick-metrics", tcase, {"real": m, "model": mm})
                after = state.get("graph", {}).get("edges", {})
                for k, r in before.get("edges", {}).items():
                    if k in after and abs(float(after[k]["weight"])) > abs(float(r["weight"])):
                        sess.violation("tick-increased-magnitude", tcase, {"key": k, "before": r["weight"], "after": after[k]["weight"]})
                    if k not in after and not abs(float(r["weight"]) * (0.5 ** (max(0, int(op[1])) / float(g["decay"]["half_life_turns"])))) < float(g["decay"]["floor"]):
                        sess.violation("tick-dropped-edge-above-floor", tcase, {"key": k, "before": r["weight"]})
                if m["decayed_edges"] or m["dropped_edges"]:
                    sess.nontrivial.add(chash((i, op, case["cfg"]["decay"])))
                if m["dropped_edges"]:
                    sess.count("ticks_that_dropped_edges")
            elif kind in ("merge", "split"):
                if kind == "merge":
                    cands = gel.merge_candidates(ctx, state)
                    for c in cands[: int(g["merge"]["cap_per_turn"])]:
                        gel.apply_merge(ctx, state, c)
                else:
                    cands = gel.split_candidates(ctx, state)
                    for c in cands[: int(g["split"]["cap_per_turn"])]:
                        gel.apply_split(ctx, state, c)
                sess.count(kind + "_passes")
                if cands:
                    sess.count(kind + "_passes_with_candidates")
                gr = state.get("graph", {"nodes": {}, "edges": {}})
                if gr.get("nodes", {}) != before.get("nodes", {}) or norm_edges(gr.get("edges", {})) != norm_edges(before.get("edges", {})):
                    sess.violation(kind + "-changed-nodes-or-edges", tcase, None)
            elif kind == "promote":
                clusters = gel.merge_candidates(ctx, state)
                promos = gel.promote_clusters(ctx, state, clusters)[: int(g["promotion"]["cap_per_turn"])]
                for p in promos:
                    gel.apply_promotion(ctx, state, p)
                once = copy.deepcopy(state.get("graph"))
                for p in promos:
                    gel.apply_promotion(ctx, state, p)
                sess.count("promotion_passes")
                if promos:
                    sess.count("promotion_passes_with_promotions")
                    sess.nontrivial.add(chash((i, "promote", case["cfg"]["promotion"])))
                if once != state.get("graph"):
                    sess.violation("promotion-not-idempotent", tcase, None)
                gr = state.get("graph", {"nodes": {}, "edges": {}})
                for nid, n in gr.get("nodes", {}).items():
                    if nid not in before.get("nodes", {}) and not (str(nid).startswith("c::") and (n.get("attrs") or {}).get("kind") == "concept"):
                        sess.violation("promotion-added-non-concept-node", tcase, {"node": nid})
                for nid in before.get("nodes", {}):
                    if gr["nodes"].get(nid) != before["nodes"][nid]:
                        sess.violation("promotion-changed-existing-node", tcase, {"node": nid})
                be = norm_edges(before.get("edges", {}))
                ae = norm_edges(gr.get("edges", {}))
                for k, v in be.items():
                    if k not in ae:
                        sess.violation("promotion-removed-edge", tcase, {"key": k})
                    elif ae[k] != v and not (str(k[0]).startswith("c::") or str(k[1]).startswith("c::")):
                        sess.violation("promotion-changed-coact-edge", tcase, {"key": k})
                for k, v in ae.items():
                    if k not in be and v[4] != "concept":
                        sess.violation("promotion-added-non-concept-edge", tcase, {"key": k})
                # keep the model in step: concept edges join the edge map the model ticks
                medges.clear()
                medges.update({(str(r.get("src")), str(r.get("dst"))): copy.deepcopy(r) for r in gr.get("edges", {}).values()})
            elif kind == "persist" and state.get("graph") is not None:
                import clematis.engine.snapshot as S
                from vlib.harness import tmpdir
                with tmpdir("c18s_") as d_:
                    full2 = copy.deepcopy(full)
                    full2.setdefault("t4", {})["snapshot_dir"] = d_
                    sctx = NS(turn_id=1, agent_id="A", cfg=to_ad(full2), config=to_ad(full2))
                    S.write_snapshot(sctx, {"graph": state["graph"], "version_etag": "1"}, "1", applied=0, deltas=[])
                    fresh = {}
                    S.load_latest_snapshot(sctx, fresh)
                if isinstance(fresh.get("graph"), dict):
                    n_before = len(norm_edges(before.get("edges", {})))
                    state["graph"] = fresh["graph"]
                    sess.count("histories_continued_after_a_snapshot_round_trip")
                    if len(norm_edges(state["graph"].get("edges", {}))) != n_before:
                        sess.violation("persist:edge-count-changed-by-the-round-trip", tcase, {"before": n_before, "after": len(norm_edges(state["graph"].get("edges", {})))})
                    # the model goes on from the restored weights (the snapshot rounds them)
                    medges.clear()
                    medges.update({(str(r.get("src")), str(r.get("dst"))): copy.deepcopy(r) for r in state["graph"].get("edges", {}).values()})
        except Exception as ex:
            import traceback
            sess.violation("raises:" + type(ex).__name__, tcase, traceback.format_exc()[-400:])
            return
        gr = state.get("graph")
        if gr is None:
            continue
        if kind in ("observe", "tick"):
            if norm_edges(gr.get("edges", {})) != norm_edges(medges):
                ne, nm = norm_edges(gr.get("edges", {})), norm_edges(medges)
                diff = [k for k in set(ne) | set(nm) if ne.get(k) != nm.get(k)][:3]
                mech = "model:" + kind + "-edges"
                if sep and any(str(x).count(ARROW) for k in diff for x in k):
                    mech = "separator-in-id:pairs-share-one-edge"
                sess.violation(mech, tcase, {"keys": diff, "real": [ne.get(k) for k in diff], "model": [nm.get(k) for k in diff]})
                return
            sess.count("model_comparisons")
        nviol = len(sess.viol_counts)
        walk_invariants(gr, g, sess, tcase, i, sep)
        if excl0 and any(k.startswith("weight-outside-clamp:") for k in sess.viol_counts):
            return  # known class; stop this history at its first occurrence
        if len(sess.viol_counts) > nviol:
            return


def _chunk(args):
    tier, seed, i, n = args
    from vlib import bootstrap

    bootstrap.init()
    rng = random.Random(f"C18/{seed}/{i}")
    sess = Session.worker(PID, tier, seed)
    for _ in range(n):
        try:
            check_case(gen_case(rng, long=(tier == "thorough")), sess)
        except Exception as ex:
            import traceback
            sess.inconclusive_because(f"harness error {type(ex).__name__}: {ex} @ {traceback.format_exc()[-300:]}")
    return sess.export()


def main(tier: str, seed: int):
    sess = Session(PID, tier, seed, level="exploration", rule=RULE)
    sess.assume("the clamp-interval invariant is enforced for co-activation edges (rel=coact); concept edges attached by promotion carry the configured attach weight")
    sess.assume("item ids containing the edge-key separator are generated in a separately keyed class")
    total = 3000 if tier == "quick" else 200000
    nchunks = par.NWORK * (1 if tier == "quick" else 4)
    per = max(1, total // nchunks)
    for ex in par.pmap(_chunk, [(tier, seed, i, per) for i in range(nchunks)]):
        sess.merge(ex)
    sess.require("gel_operations", 2000)
    sess.require("model_comparisons", 1500)
    sess.require("observations_that_updated_pairs", 300)
    sess.require("ticks_that_dropped_edges", 30)
    sess.require("promotion_passes_with_promotions", 5)
    sess.require("merge_passes_with_candidates", 10)
    sess.require("gate_off_probes", 20)
    sess.finish()


def replay(body, tier, seed):
    sess = Session(PID, tier, seed, rule=RULE)
    sess.replay_mode = True
    check_case(unjson(body["case"]), sess)
    return sess.finish(exit_process=False)
