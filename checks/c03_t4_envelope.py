"""C03 - Meta-filter output always stays inside the safety envelope.

Monitors on the real `t4_filter`:
  (1) envelope predicates on every result,
  (2) an independent reference pipeline (exact rational merge; tolerance scaled by sum|v|),
  (3) exact equality of the T4Result over permutations of the delta list,
  (4) arguments deep-equal before/after, repeat call identical, and identical again after
      other unrelated calls (history independence).
"""
from __future__ import annotations

import copy
import itertools
import math
import random
from fractions import Fraction
from types import SimpleNamespace as NS

from vlib import par
from vlib.session import Session, unjson, chash

PID = "C03"
RULE = ("generated (caps, cooldown map, op list, cooldown history, turn, delta multiset) cases fed to the real "
        "t4_filter; non-trivial = >=2 distinct targets proposed and at least one pipeline stage "
        "(merge, cooldown, novelty clamp, L2 scale, churn cut) actually changed something")

KINDS = ["EditGraph", "CreateGraph", "Speak", "SetMetaFilter", "RequestRetrieve", "Weird"]
SPECIAL = [0.1, 0.2, 0.3, -0.3, 1e16, 1.0, -1e16, 1e308, -1e308, 5e-324, -5e-324, 0.0, -0.0,
           1e-310, 0.30000000000000004, 0.3, 0.15, -0.15, 1.5, 2.0, 1e-9, 0.25, 0.5, -0.5]


class AD(dict):
    def __getattr__(self, k):
        try:
            return self[k]
        except KeyError as e:
            raise AttributeError(k) from e


def gen_case(rng: random.Random, big: bool = False) -> dict:
    ntargets = rng.randint(1, 8)
    targets = []
    for i in range(ntargets):
        kind = rng.choice(["node", "edge"])
        tid = rng.choice([f"n{i}", f"e{i}|rel|x", f"N{i}", f"é{i}", f"n{i} "]) if rng.random() < 0.8 else f"t{rng.randint(0, 3)}"
        attr = rng.choice(["weight", "weight", "weight", "bias"])
        targets.append((kind, tid, attr))
    if rng.random() < 0.3:
        # ids that are prefixes of one another, continued by characters that sort below and above ':' (the
        # canonical key joins kind:id:attr, so "n1" vs "n10" orders differently as a string than as a tuple)
        pool = ["n1", "n10", "n1a", "n1+", "n1 ", "n", "n1.", "n1z", "n100", "n1/x"]
        kind = rng.choice(["node", "edge"])
        targets = [(kind, t, "weight") for t in rng.sample(pool, rng.randint(2, min(8, len(pool))))]
    if rng.random() < 0.25:
        # ids and attributes with colons in them, as the engine's own ids have ("n:hello", "g:surface/n:1", "meta:salience");
        # two targets whose 'kind:id:attr' strings coincide are one target to the filter and are not generated together
        pool = [("node", "n:a", "weight"), ("node", "n:a", "meta:salience"), ("node", "n:a:b", "weight"), ("edge", "e:a|r|b", "weight"), ("node", "g:surface/n:1", "bias"),
                ("node", "n:", "weight"), ("edge", ":x", "w:1:2"), ("node", "n:b", "weight"), ("node", "n:10", "weight"), ("node", "n:1", "weight")]
        picked, seen_k = [], set()
        for t_ in rng.sample(pool, rng.randint(2, 8)):
            k_ = f"{t_[0]}:{t_[1]}:{t_[2]}"
            if k_ not in seen_k:
                seen_k.add(k_)
                picked.append(t_)
        targets = picked
    nops = rng.randint(0, 5)
    ops = [rng.choice(KINDS) for _ in range(nops)]
    nd = rng.randint(0, 40 if big else 9)
    mode = rng.choice(["special", "uniform", "tiny", "ties", "mixed"])
    deltas = []
    for j in range(nd):
        t = rng.choice(targets)
        if mode == "special" or (mode == "mixed" and rng.random() < 0.5):
            v = rng.choice(SPECIAL)
        elif mode == "tiny":
            v = rng.choice([1e-12, -1e-12, 5e-324, 1e-300, 0.0])
        elif mode == "ties":
            v = rng.choice([0.2, -0.2, 0.3, 0.1])
        else:
            v = rng.uniform(-2, 2)
        op_idx = rng.choice([None] + list(range(nops))) if nops else rng.choice([None, None, 0, 7])
        idx = rng.choice([None, j, rng.randint(0, 50)])
        deltas.append([t[0], t[1], t[2], v, op_idx, idx])
    cooldowns = {}
    for k in rng.sample(KINDS, rng.randint(0, 3)):
        cooldowns[k] = rng.choice([0, 1, 2, 3, 10])
    turn = rng.choice([0, 1, 2, 5, 10, 11, "7", "x"])
    last = {}
    for k in rng.sample(KINDS, rng.randint(0, 4)):
        ti = turn if isinstance(turn, int) else (7 if turn == "7" else 0)
        last[k] = rng.choice([ti, ti - 1, ti - 2, ti - 3, ti - 10, ti + 1, 0, None, "3"])
    caps = {
        "delta_norm_cap_l2": rng.choice([1.5, 0.1, 1e-3, 1e-12, 0.3, 100.0, 1e6, 0.6, 0.5]),
        "novelty_cap_per_node": rng.choice([0.3, 1.0, 1e-6, 0.2, 0.5, 0.15]),
        "churn_cap_edges": rng.choice([0, 1, 2, 3, 64, 5]),
    }
    return {
        "kind": "t4",
        "caps": caps, "cooldowns": cooldowns, "ops": ops, "turn": turn, "last": last,
        "deltas": deltas,
        "shape": {"plan": rng.choice(["dc", "dict", "ns"]), "state": rng.choice(["dict", "obj", "nometa"]),
                  "ops": rng.choice(["dc", "dict"]), "turnattr": rng.choice(["turn_id", "turn", "current_turn"])},
    }


def build(case, order=None, shared=None):
    from clematis.engine.types import ProposedDelta, Plan, EditGraphOp, CreateGraphOp, SpeakOp, SetMetaFilterOp, RequestRetrieveOp

    sh = case["shape"]
    t4 = dict(case["caps"])
    t4["cooldowns"] = dict(case["cooldowns"])
    t4["enabled"] = True
    if shared is not None:
        # long-lived config object edited in place between turns (as a host application does)
        shared["t4"].clear()
        shared["t4"].update(t4)
        shared["t4"]["cooldowns"] = dict(case["cooldowns"])
        ctx = NS(config=shared, cfg=shared)
    else:
        ctx = NS(config=AD(t4=AD(t4)), cfg=AD(t4=AD(t4)))
    setattr(ctx, sh["turnattr"], case["turn"])
    ds = [ProposedDelta(target_kind=d[0], target_id=d[1], attr=d[2], delta=d[3], op_idx=d[4], idx=d[5]) for d in case["deltas"]]
    if order is not None:
        ds = [ds[i] for i in order]

    def mkop(k):
        if sh["ops"] == "dict":
            return {"kind": k}
        if k == "EditGraph":
            return EditGraphOp(kind="EditGraph", edits=[], cap=1)
        if k == "CreateGraph":
            return CreateGraphOp(kind="CreateGraph", title="t", tags=[])
        if k == "Speak":
            return SpeakOp(kind="Speak", intent="ack", topic_labels=[], max_tokens=8)
        if k == "SetMetaFilter":
            return SetMetaFilterOp(kind="SetMetaFilter", params={})
        if k == "RequestRetrieve":
            return RequestRetrieveOp(kind="RequestRetrieve", query="q", owner="any", k=1)
        return NS(kind=k)

    ops = [mkop(k) for k in case["ops"]]
    if sh["plan"] == "dc":
        plan = Plan(version="t3-plan-v1", ops=ops, deltas=ds)
    elif sh["plan"] == "dict":
        plan = {"ops": ops, "deltas": ds}
    else:
        plan = NS(ops=ops, deltas=ds)
    last = {k: v for k, v in case["last"].items()}
    if sh["state"] == "dict":
        state = {"meta": {"cooldowns": last}}
    elif sh["state"] == "obj":
        state = NS(meta=NS(cooldowns=last))
    else:
        state = {} if not last else {"meta": {"cooldowns": last}}
    return ctx, state, plan


def ckey(d):
    return f"{d[0]}:{d[1]}:{d[2]}"


def model(case):
    """Reference pipeline. Returns dict with approved {ckey: Fraction-ish float}, tolerance per key, etc."""
    caps = case["caps"]
    turn = case["turn"]
    try:
        turn_i = int(turn)
    except Exception:
        turn_i = 0
    blocked = set()
    if case["ops"] and case["cooldowns"]:
        for i, k in enumerate(case["ops"]):
            cd = case["cooldowns"].get(k)
            if not cd:
                continue
            lt = case["last"].get(k)
            if isinstance(lt, int) and not isinstance(lt, bool) and (turn_i - lt) < int(cd):
                blocked.add(i)
    groups = {}
    for d in case["deltas"]:
        groups.setdefault(ckey(d), []).append(d)
    merged = {}
    tol = {}
    for k, lst in groups.items():
        vals = [Fraction(x[3]) for x in lst]
        ex = sum(vals)
        absum = sum(abs(v) for v in vals)
        try:
            exf = float(ex)
        except OverflowError:
            exf = math.inf if ex > 0 else -math.inf
        # an intermediate float overflow makes any finite/inf outcome defensible
        # ... and so does an ill-conditioned sum (worst-case rounding error of the float
        # merge above 1e-9 relative to the exact result): the reference comparison is
        # skipped for such cases; envelope and order independence are still enforced.
        if absum > Fraction(1.7e308):
            t = math.inf
        elif len(vals) > 1 and absum * len(vals) * Fraction(1, 2 ** 52) > abs(ex) * Fraction(1, 10 ** 9):
            t = math.inf
        else:
            t = float(absum) * 1e-9
        opi = [x[4] for x in lst if x[4] is not None]
        ixs = [x[5] for x in lst if x[5] is not None]
        merged[k] = {"v": exf, "tol": t, "op": (min(opi) if opi else None), "idx": (min(ixs) if ixs else None),
                     "ops_all": set(x[4] for x in lst)}
        tol[k] = t
    after_cd = {k: m for k, m in merged.items() if m["op"] is None or m["op"] not in blocked}
    cap = abs(float(caps["novelty_cap_per_node"]))
    nov = 0
    clamped = {}
    for k, m in after_cd.items():
        v = m["v"]
        if abs(v) > cap:
            v = cap if v > 0 else -cap
            nov += 1
        clamped[k] = v
    norm = math.sqrt(math.fsum(v * v for v in clamped.values())) if clamped else 0.0
    l2 = float(caps["delta_norm_cap_l2"])
    scale = 1.0
    scaled = dict(clamped)
    if clamped and norm > l2 and norm != 0.0:
        scale = l2 / norm
        scaled = {k: v * scale for k, v in clamped.items()}
    K = int(caps["churn_cap_edges"])
    dropped = 0
    kept = scaled
    if len(scaled) > K:
        ranked = sorted(scaled.items(), key=lambda kv: (-abs(kv[1]), kv[0]))
        kept = dict(ranked[:K])
        dropped = len(scaled) - K
    return {"blocked": blocked, "merged": merged, "after_cd": after_cd, "nov": nov, "scale": scale,
            "kept": kept, "dropped": dropped, "norm": norm, "scaled": scaled}


def _rounding_free(case, key, m):
    import itertools

    vals = [float(d[3]) for d in case["deltas"] if ckey(d) == key]
    if len(vals) <= 1:
        return True
    if len(vals) > 6:
        return False
    sums = set()
    for perm in itertools.permutations(vals):
        t = 0.0
        for v in perm:
            t += v
        sums.add(t)
        if len(sums) > 1:
            return False
    return sums == {m["merged"][key]["v"]}


def res_sig(r):
    """Exact, order-preserving signature of a T4Result (floats by repr)."""
    return (
        tuple((d.target_kind, d.target_id, d.attr, repr(float(d.delta)), d.op_idx, d.idx) for d in r.approved_deltas),
        tuple((o.kind, o.idx) for o in r.rejected_ops),
        tuple(r.reasons),
        repr(r.metrics),
    )


def deep_sig(ctx, state, plan):
    return repr((ctx, state, plan))


def check_case(case, sess: Session, history=None, full_perm_limit=6, rng=None, shared=None):
    from clematis.engine.stages.t4 import t4_filter

    rng = rng or random.Random(0)
    ctx, state, plan = build(case, shared=shared)
    if shared is not None:
        sess.count("calls_on_shared_config_object")
    before = deep_sig(ctx, state, plan)
    try:
        r = t4_filter(ctx, state, None, None, plan, "utter")
    except Exception as e:  # the filter is total on the generated domain
        sess.violation("t4-raises", case, {"exc": type(e).__name__, "msg": str(e)[:200]})
        return
    sess.count("t4_calls")
    after = deep_sig(ctx, state, plan)
    if before != after:
        sess.violation("t4-mutates-arguments", case, {"before": before[:400], "after": after[:400]})
    sig = res_sig(r)
    r2 = t4_filter(ctx, state, None, None, plan, "other utter")
    sess.count("t4_calls")
    if res_sig(r2) != sig:
        sess.violation("t4-repeat-call-differs", case, {"a": sig, "b": res_sig(r2)})

    m = model(case)
    caps = case["caps"]
    nov_cap = abs(float(caps["novelty_cap_per_node"]))
    l2 = float(caps["delta_norm_cap_l2"])
    K = int(caps["churn_cap_edges"])
    proposed = {ckey(d) for d in case["deltas"]}
    app = [(f"{d.target_kind}:{d.target_id}:{d.attr}", float(d.delta), d.op_idx) for d in r.approved_deltas]
    keys = [a[0] for a in app]
    env = []
    if len(set(keys)) != len(keys):
        env.append("duplicate-target")
    if any(math.isnan(a[1]) for a in app):
        env.append("nan-delta")
    if any(abs(a[1]) > nov_cap * (1 + 1e-12) for a in app):
        env.append("novelty-cap-exceeded")
    nrm = math.sqrt(math.fsum(a[1] * a[1] for a in app)) if app else 0.0
    if nrm > l2 * (1 + 1e-9):
        env.append("l2-cap-exceeded")
    if len(app) > K:
        env.append("churn-cap-exceeded")
    proposed_t = {(str(d[0]), str(d[1]), str(d[2])) for d in case["deltas"]}
    if not set(keys) <= proposed or not {(str(d.target_kind), str(d.target_id), str(d.attr)) for d in r.approved_deltas} <= proposed_t:
        # (compared field by field as well: 'node' + 'n:a' + 'meta:salience' and 'node' + 'n:a:meta' + 'salience' spell the same key)
        env.append("target-not-proposed")
    if keys != sorted(keys):
        env.append("not-canonical-order")
    # cooldown: a target all of whose contributors come from blocked ops must be absent;
    # and the merged provenance (min op index) must not be blocked
    for k, v, opi in app:
        mm = m["merged"].get(k)
        if mm is None:
            continue
        if mm["ops_all"] and all((o is not None and o in m["blocked"]) for o in mm["ops_all"]):
            env.append("approved-from-cooldown-op")
        elif mm["op"] is not None and mm["op"] in m["blocked"]:
            env.append("approved-merged-provenance-in-cooldown")
    for d in r.approved_deltas:
        mm = m["merged"].get(f"{d.target_kind}:{d.target_id}:{d.attr}")
        if mm is not None and (d.op_idx != mm["op"] or d.idx != mm["idx"]):
            env.append("merged-provenance-not-smallest-index")
    rej = [(o.kind, o.idx) for o in r.rejected_ops]
    exp_rej = [(case["ops"][i], i) for i in sorted(m["blocked"])]
    if rej != exp_rej:
        env.append("rejected-ops-mismatch")
    for e in sorted(set(env)):
        sess.violation("envelope:" + e, case, {"approved": app, "rejected": rej, "expected_rejected": exp_rej,
                                               "norm": nrm, "caps": caps})
    sess.count("envelope_checks")

    # --- reference pipeline comparison (tolerant, condition-aware) ---------------------
    loose = any(mm["tol"] == math.inf for mm in m["merged"].values())
    kept = m["kept"]
    # churn ties within tolerance make the kept *set* ambiguous: classify instead of alarm
    diffs = []
    if not loose:
        if set(keys) != set(kept.keys()):
            # ambiguity check: borderline magnitudes at the cut
            mags = sorted((abs(v) for v in m["scaled"].values()), reverse=True)
            amb = False
            if 0 < K < len(mags):
                # near-tie band around the cut magnitude: if the two kept sets differ only inside the band and the band
                # holds a value that is close to but not exactly the cut (the exact rational merge and the float merge may
                # round it to either side, e.g. 0.1+0.3-0.2), the kept set is undecidable; a purely exact tie is decided
                # by the canonical-key tie-break and stays enforced
                cut = mags[K - 1]
                band = {k for k, v in m["scaled"].items() if abs(abs(v) - cut) <= 1e-9 * max(1e-300, cut)}
                symdiff = set(keys) ^ set(kept.keys())
                # ... and an exact tie in the model is only binding if no tied value involved a rounding: every summation
                # order of its contributions gives the same float, equal to the exact sum (0.2+0.1 is one ulp above the
                # correctly rounded exact sum of the same two floats; against a plain 0.3 that is a near-tie, not a tie)
                ncap = abs(float(caps["novelty_cap_per_node"]))
                pre = {min(abs(m["merged"][k]["v"]), ncap) for k in band}  # magnitudes before the uniform scaling
                exact_only = (all(abs(m["scaled"][k]) == cut for k in band) and all(_rounding_free(case, k, m) for k in band)
                              and len(pre) == 1)  # two values one ulp apart may collide only after the scaling
                amb = bool(symdiff) and symdiff <= band and not exact_only
            # clamp/scale borderline: a value within tol of the novelty cap
            if amb:
                sess.count("model_inconclusive_tie")
            else:
                diffs.append({"set": [sorted(keys), sorted(kept)]})
        else:
            for k, v, _ in app:
                ev = kept[k]
                tolk = max(m["merged"][k]["tol"] * max(1.0, m["scale"]), 1e-9 * abs(ev), 1e-300)
                if abs(v - ev) > tolk:
                    diffs.append({"key": k, "got": v, "exp": ev, "tol": tolk})
        exp_reasons = []
        if m["blocked"]:
            exp_reasons.append("COOLDOWN_BLOCKED")
        if m["nov"] > 0:
            exp_reasons.append("NOVELTY_SPIKE")
        if m["scale"] < 0.999999:
            exp_reasons.append("DELTA_NORM_HIGH")
        if m["dropped"] > 0:
            exp_reasons.append("CHURN_CAP_HIT")
        borderline = False
        for k, mm in m["after_cd"].items():
            if abs(abs(mm["v"]) - nov_cap) <= max(mm["tol"], 1e-12):
                borderline = True
        if abs(m["norm"] - l2) <= 1e-9 * l2 or abs(m["scale"] - 0.999999) < 1e-9:
            borderline = True
        if list(r.reasons) != exp_reasons:
            if borderline:
                sess.count("model_inconclusive_tie")
            else:
                diffs.append({"reasons": [list(r.reasons), exp_reasons]})
        cnt = r.metrics.get("counts", {})
        expc = {"input": len(case["deltas"]), "after_cooldown": len(m["after_cd"]), "approved": len(kept),
                "dropped_tail": m["dropped"]}
        for kk, vv in expc.items():
            if cnt.get(kk) != vv:
                diffs.append({"metric": kk, "got": cnt.get(kk), "exp": vv})
        if r.metrics.get("cooldowns", {}).get("blocked_ops") != len(m["blocked"]):
            diffs.append({"metric": "blocked_ops"})
        if diffs:
            sess.violation("differs-from-reference-pipeline", case, diffs[:5])
        sess.count("reference_comparisons")
    else:
        sess.count("reference_skipped_illconditioned")

    # --- order independence: exact --------------------------------------------------
    n = len(case["deltas"])
    if n >= 2:
        if n <= full_perm_limit:
            orders = itertools.permutations(range(n))
        else:
            orders = []
            for _ in range(24):
                o = list(range(n))
                rng.shuffle(o)
                orders.append(o)
            orders.append(list(reversed(range(n))))
        bad = None
        np_ = 0
        for o in orders:
            c2, s2, p2 = build(case, list(o), shared=shared)
            rr = t4_filter(c2, s2, None, None, p2, "utter")
            np_ += 1
            if res_sig(rr) != sig:
                bad = (list(o), res_sig(rr))
                break
        sess.count("permutations_evaluated", np_)
        sess.count("t4_calls", np_)
        if bad is not None:
            # classify: is the difference explained solely by float-sum order of same-target duplicates?
            mech = "order-dependent"
            dup_groups = [lst for lst in _groups(case).values() if len(lst) > 1]
            sensitive = any(_sum_order_sensitive([x[3] for x in g]) for g in dup_groups)
            if sensitive:
                mech = "order-dependent:same-target-duplicates-float-sum"
            sess.violation(mech, case, {"order": bad[0], "ref": sig[0], "got": bad[1][0]})
    # --- history independence -------------------------------------------------------
    if history is not None:
        history.append((case, sig))
        if len(history) >= 8:
            c0, s0 = history[rng.randrange(len(history) - 1)]
            cc, ss, pp = build(c0, shared=shared)
            if res_sig(t4_filter(cc, ss, None, None, pp, "u")) != s0:
                sess.violation("depends-on-call-history", c0, {"first": s0})
            sess.count("history_rechecks")
            del history[:4]

    stages_active = bool(m["blocked"]) or m["nov"] > 0 or m["scale"] < 1.0 or m["dropped"] > 0 or len(proposed) < n
    sess.case({"c": case["caps"], "d": case["deltas"], "o": case["ops"], "l": case["last"], "t": case["turn"]},
              nontrivial=(len(proposed) >= 2 and stages_active),
              sample={"case": case, "approved": app, "rejected": rej, "reasons": list(r.reasons)})
    if m["blocked"]:
        sess.count("cases_with_cooldown_block")
    if m["nov"]:
        sess.count("cases_with_novelty_clamp")
    if m["scale"] < 1.0:
        sess.count("cases_with_l2_scale")
    if m["dropped"]:
        sess.count("cases_with_churn_cut")
    if len(proposed) < n:
        sess.count("cases_with_duplicates")


def _groups(case):
    g = {}
    for d in case["deltas"]:
        g.setdefault(ckey(d), []).append(d)
    return g


def _sum_order_sensitive(vals):
    if len(vals) > 7:
        seen = set()
        r = random.Random(1)
        for _ in range(200):
            v = list(vals)
            r.shuffle(v)
            s = 0.0
            for x in v:
                s += x
            seen.add(repr(s))
        return len(seen) > 1
    seen = set()
    for p in itertools.permutations(vals):
        s = 0.0
        for x in p:
            s += x
        seen.add(repr(s))
    return len(seen) > 1


DIRECTED = [
    # same-target duplicates whose float sum depends on order
    {"caps": {"delta_norm_cap_l2": 100.0, "novelty_cap_per_node": 1.0, "churn_cap_edges": 64}, "cooldowns": {}, "ops": [],
     "turn": 1, "last": {}, "deltas": [["node", "n0", "weight", 0.1, None, 0], ["node", "n0", "weight", 0.2, None, 1],
                                         ["node", "n0", "weight", 0.3, None, 2], ["node", "n1", "weight", 0.5, None, 3]]},
    {"caps": {"delta_norm_cap_l2": 1.5, "novelty_cap_per_node": 0.3, "churn_cap_edges": 64}, "cooldowns": {}, "ops": [],
     "turn": 1, "last": {}, "deltas": [["edge", "e0", "weight", 1e308, None, 0], ["edge", "e0", "weight", 1e308, None, 1],
                                         ["edge", "e0", "weight", -1e308, None, 2], ["edge", "e0", "weight", -1e308, None, 3],
                                         ["node", "n1", "weight", 0.2, None, 4]]},
    # cooldown boundary: turn - last == cd is NOT blocked, == cd-1 is
    {"caps": {"delta_norm_cap_l2": 1.5, "novelty_cap_per_node": 0.3, "churn_cap_edges": 64},
     "cooldowns": {"EditGraph": 2, "CreateGraph": 10}, "ops": ["EditGraph", "CreateGraph", "Speak"],
     "turn": 5, "last": {"EditGraph": 3, "CreateGraph": 0},
     "deltas": [["node", "a", "weight", 0.2, 0, 0], ["node", "b", "weight", 0.2, 1, 1], ["node", "c", "weight", 0.2, 2, 2],
                ["node", "a", "weight", 0.1, 1, 3]]},
    # churn ties at the boundary, L2 scaling and novelty clamp together
    {"caps": {"delta_norm_cap_l2": 0.5, "novelty_cap_per_node": 0.3, "churn_cap_edges": 2}, "cooldowns": {}, "ops": [],
     "turn": 1, "last": {}, "deltas": [["node", "a", "weight", 0.9, None, 0], ["node", "b", "weight", -0.9, None, 1],
                                         ["node", "c", "weight", 0.9, None, 2], ["edge", "a", "weight", 0.1, None, 3]]},
]
for _c in DIRECTED:
    _c["kind"] = "t4"
    _c["shape"] = {"plan": "dc", "state": "dict", "ops": "dc", "turnattr": "turn_id"}


def overlap_case(rng, sess: Session):
    """Several callers filter their own plans at the same moment (a thread switch is offered at every statement of the stage):
    every caller gets the result it gets alone."""
    import inspect
    import threading
    import sys as _sys
    import clematis.engine.stages.t4 as T4
    from clematis.engine.stages.t4 import t4_filter
    from vlib.harness import line_yields

    nt = rng.choice([2, 3, 4])
    cases = [gen_case(rng, big=(rng.random() < 0.3)) for _ in range(nt)]
    alone = []
    for c in cases:
        ctx, state, plan = build(c)
        try:
            alone.append(res_sig(t4_filter(ctx, state, None, None, plan, "utter")))
        except Exception as ex:
            alone.append("raises:" + type(ex).__name__)
    got = [None] * nt
    barrier = threading.Barrier(nt)

    def w(i):
        ctx, state, plan = build(cases[i])
        try:
            barrier.wait(10)
            got[i] = res_sig(t4_filter(ctx, state, None, None, plan, "utter"))
        except Exception as ex:
            got[i] = "raises:" + type(ex).__name__

    codes = [f.__code__ for f in vars(T4).values() if inspect.isfunction(f) and f.__module__ == T4.__name__]
    old_si = _sys.getswitchinterval()
    _sys.setswitchinterval(1e-6)
    try:
        with line_yields(codes, prob=0.5, seed=rng.randint(0, 10 ** 6), tool=4, name="verif-c03") as inj:
            ths = [threading.Thread(target=w, args=(i,)) for i in range(nt)]
            for t in ths:
                t.start()
            for t in ths:
                t.join(60)
        sess.count("overlap_yields_injected", inj[0])
    finally:
        _sys.setswitchinterval(old_si)
    sess.evaluations += 1
    sess.count("overlapping_filter_calls", nt)
    for i in range(nt):
        if got[i] != alone[i]:
            sess.violation("overlapping-calls:result-differs-from-the-call-alone", {"overlap": True, "cases": cases, "caller": i},
                           {"alone": str(alone[i])[:300], "overlapped": str(got[i])[:300]})
            return
    sess.nontrivial.add(chash(("overlap", nt, inj[0])))


def _chunk(args):
    tier, seed, idx, n = args
    from vlib import bootstrap

    bootstrap.init()
    sess = Session.worker(PID, tier, seed)
    rng = random.Random(f"{PID}-{seed}-{idx}")
    hist = []
    shared = AD(t4=AD())
    if idx == 0:
        for c in DIRECTED:
            check_case(copy.deepcopy(c), sess, hist, rng=rng)
            sess.count("directed_cases")
    for i in range(n):
        case = gen_case(rng, big=(i % 5 == 0))
        if i % 6 == 3:
            # the norm cap placed just below / at / just above the norm the deltas have after the novelty clamp
            try:
                nrm0 = model(case)["norm"]
            except Exception:
                nrm0 = 0.0
            if nrm0 and math.isfinite(nrm0) and nrm0 > 1e-300:
                case["caps"]["delta_norm_cap_l2"] = nrm0 * (1.0 - rng.choice([1e-7, 3e-7, 9e-7, 1e-8, 1e-10, 0.0, -1e-9, 2e-6, 1e-3]))
                sess.count("cases_with_cap_at_the_norm_boundary")
        check_case(case, sess, hist, rng=rng, shared=(shared if (i // 40) % 3 == 1 else None))
    for _ in range(12 if tier == "quick" else 300):
        try:
            overlap_case(rng, sess)
        except Exception as ex:
            import traceback
            sess.inconclusive_because(f"harness error {type(ex).__name__}: {ex} @ {traceback.format_exc()[-400:]}")
    return sess.export()


def main(tier: str, seed: int):
    sess = Session(PID, tier, seed, level="exploration", rule=RULE)
    sess.assume("NaN/inf delta *inputs* are outside the generated domain; ids / attributes may contain ':' but two distinct targets with the same 'kind:id:attr' string (one target to the filter) are not generated together")
    sess.assume("the cooldown clause is judged on the merged provenance (smallest contributing op index), as the documented pipeline merges before the cooldown step; a target all of whose contributors are in cooldown must never be approved")
    sess.assume("reference comparison tolerance is 1e-9 x sum|v_i| per merged target (floating-point merge), vacuous when the running sum can overflow; order independence is always exact")
    total = 3000 if tier == "quick" else 600000
    nchunks = par.NWORK * (1 if tier == "quick" else 4)
    per = total // nchunks
    for ex in par.pmap(_chunk, [(tier, seed, i, per) for i in range(nchunks)]):
        sess.merge(ex)
    sess.require("t4_calls", 1000)
    sess.require("permutations_evaluated", 1000)
    sess.require("reference_comparisons", 500)
    sess.require("calls_on_shared_config_object", 100)
    sess.require("overlapping_filter_calls", 100)
    sess.finish()


def replay(body, tier, seed):  # (overlapping-call cases are re-explored, not replayed step by step)
    sess = Session(PID, tier, seed, rule=RULE)
    sess.replay_mode = True
    case = unjson(body["case"])
    if case.get("overlap"):
        rng = random.Random(0)
        for _ in range(300):
            overlap_case(rng, sess)
        return sess.finish(exit_process=False)
    case["deltas"] = [list(d) for d in case["deltas"]]
    check_case(case, sess, None)
    return sess.finish(exit_process=False)
