"""C16 - Log streams stay well-formed, ordered and lossless.

Monitors:
  (A) concurrent writers (threads in one process and separate processes, optionally with a concurrent
      rotator) append stamped records (writer id, sequence; 1 B .. 1 MiB, unicode, U+2028, lines beyond
      the pipe buffer) through the real append_jsonl; afterwards every LF-separated line of the file and
      its generations must parse, every stamp must occur exactly once, per-writer sequences ascend; an
      strace sample confirms one write(2) per appended line;
  (B) normalize_for_identity vs an independent field table, idempotence, input deep-copy, other streams
      untouched, CI unset = identity;
  (C) staging: LogStager.drain_sorted vs the (turn, stage ordinal, slice, arrival) model, and the real
      batch driver (compute/apply/writer overridden through its own hooks) run at many byte limits: the
      per-file record order on the writer must be the same for every limit and every buffer arrival order;
  (D) rewrite_jsonl preserves the records and their order (after the same normalisation), is canonical
      and idempotent;
  (E) rotate_one over generated histories vs a shift model, with an interruption before any rename step and
      with a failing rename: nothing but the oldest generation may disappear, nothing may be duplicated.
"""
from __future__ import annotations

import copy
import errno
import json
import os
import random
import subprocess
import sys
import threading
import time

from vlib import par
from vlib.harness import tmpdir, patched
from vlib.session import Session, unjson, chash

PID = "C16"
RULE = ("one evaluation = one concurrent-writer run, one normaliser record, one staging case (all byte limits), one "
        "rewrite case or one rotation history; non-trivial = >= 2 writers really interleaved, a volatile field was present, "
        "back-pressure flushed at least once, or a generation was shifted/dropped")
IDENTITY = {"t1.jsonl", "t2.jsonl", "t4.jsonl", "apply.jsonl", "turn.jsonl"}
STAGE_ORD = {"t1.jsonl": 1, "t2.jsonl": 2, "t3_plan.jsonl": 3, "t3_dialogue.jsonl": 4, "t4.jsonl": 5, "apply.jsonl": 6, "health.jsonl": 7,
             "turn.jsonl": 8, "scheduler.jsonl": 9, "t3_reflection.jsonl": 10}


# ------------------------------------------------------------------------------ (A)
def read_generations(path):
    """Concatenation oldest generation -> live file."""
    d, base = os.path.dirname(path), os.path.basename(path)
    gens = []
    for n in os.listdir(d):
        if n.startswith(base + ".") and n[len(base) + 1:].isdigit():
            gens.append((int(n[len(base) + 1:]), os.path.join(d, n)))
    files = [p for _, p in sorted(gens, reverse=True)]
    if os.path.exists(path):
        files.append(path)
    return files


def writers_case(case, sess: Session):
    from vlib import bootstrap
    from clematis.io.log import append_jsonl
    from clematis.scripts.rotate_logs import rotate_one
    from vlib.logworker import payload

    with tmpdir("c16w_") as d:
        stream = case["stream"]
        path = os.path.join(d, stream)
        old_env = {k: os.environ.get(k) for k in ("CLEMATIS_LOG_DIR", "CI")}
        os.environ["CLEMATIS_LOG_DIR"] = d
        os.environ.pop("CI", None)
        stop = threading.Event()
        rotations = [0]
        errors = []

        def rotator():
            while not stop.is_set():
                try:
                    if os.path.exists(path) and os.path.getsize(path) > case["rotate_at"]:
                        if rotate_one(path, backups=100000):
                            rotations[0] += 1
                except Exception as ex:
                    errors.append(("rotator", repr(ex)))
                time.sleep(0.0005)

        def tworker(wid):
            rng = random.Random(case["seed"] * 100 + hash(wid) % 97)
            try:
                for i in range(case["n"]):
                    append_jsonl(stream, payload(wid, i, rng.choice(case["sizes"]), rng))
            except Exception as ex:
                errors.append((wid, repr(ex)))

        rot = None
        try:
            if case["rotate"]:
                rot = threading.Thread(target=rotator, daemon=True)
                rot.start()
            procs = []
            for pi in range(case["procs"]):
                job = {"log_dir": d, "stream": stream, "writer": f"p{pi}", "n": case["n"], "sizes": case["sizes"], "seed": case["seed"] * 100 + pi}
                p = subprocess.Popen([bootstrap.PY, "-m", "vlib.logworker"], stdin=subprocess.PIPE, stdout=subprocess.PIPE, stderr=subprocess.PIPE,
                                     env=bootstrap.child_env(CLEMATIS_LOG_DIR=d, CI=None), cwd=bootstrap.VERIF)
                p.stdin.write(json.dumps(job).encode())
                p.stdin.close()
                procs.append(p)
            old_si = sys.getswitchinterval()
            sys.setswitchinterval(1e-5)
            ths = [threading.Thread(target=tworker, args=(f"t{ti}",)) for ti in range(case["threads"])]
            for t in ths:
                t.start()
            for t in ths:
                t.join(300)
            sys.setswitchinterval(old_si)
            for p in procs:
                try:
                    p.wait(300)
                except subprocess.TimeoutExpired:
                    p.kill()
                    sess.inconclusive_because("writer process watchdog fired")
                    return
                if p.returncode != 0:
                    errors.append(("proc", p.stderr.read().decode("utf-8", "replace")[-300:]))
        finally:
            stop.set()
            if rot is not None:
                rot.join(10)
            for k, v in old_env.items():
                if v is None:
                    os.environ.pop(k, None)
                else:
                    os.environ[k] = v
        sess.evaluations += 1
        sess.count("concurrent_writer_runs")
        sess.sample({"kind": "concurrent-writers", **case, "rotations": rotations[0]})
        for who, e in errors:
            sess.violation("writer-raised", case, {"who": who, "exc": e[:300]})
        if errors:
            return
        files = read_generations(path)
        seen = {}
        order = {}
        nlines = 0
        interleave = 0
        last_w = None
        for f in files:
            data = open(f, "rb").read()
            if data and not data.endswith(b"\n"):
                sess.violation("stream-not-LF-terminated", case, {"file": os.path.basename(f), "tail": repr(data[-40:])})
            for ln in data.split(b"\n"):
                if not ln:
                    continue
                nlines += 1
                try:
                    rec = json.loads(ln)
                except Exception as ex:
                    sess.violation("torn-or-unparsable-line", case, {"file": os.path.basename(f), "line": repr(ln[:80]), "len": len(ln)})
                    return
                if b"\r" in ln:
                    sess.violation("line-contains-CR", case, None)
                k = (rec.get("w"), rec.get("seq"))
                seen[k] = seen.get(k, 0) + 1
                order.setdefault(rec.get("w"), []).append(rec.get("seq"))
                if last_w is not None and rec.get("w") != last_w:
                    interleave += 1
                last_w = rec.get("w")
        writers = [f"t{i}" for i in range(case["threads"])] + [f"p{i}" for i in range(case["procs"])]
        exp = {(w, i) for w in writers for i in range(case["n"])}
        missing = sorted(exp - set(seen))[:5]
        dup = sorted(k for k, c in seen.items() if c > 1)[:5]
        extra = sorted(set(seen) - exp, key=str)[:5]
        if missing:
            sess.violation("record-lost", case, {"missing": missing, "rotations": rotations[0]})
        if dup:
            sess.violation("record-duplicated", case, {"dup": dup})
        if extra:
            sess.violation("unexpected-record", case, {"extra": extra})
        for w, seqs in order.items():
            if seqs != sorted(seqs):
                sess.violation("per-writer-order-broken", case, {"writer": w, "head": seqs[:12], "rotations": rotations[0]})
                break
        sess.count("appended_records_verified", nlines)
        sess.count("writer_interleavings_observed", interleave)
        sess.count("rotations_during_appends", rotations[0])
        if interleave >= 2:
            sess.nontrivial.add(chash(case))


def strace_sample(sess: Session):
    from vlib import bootstrap
    import shutil

    if not shutil.which("strace"):
        sess.assume("strace not available: one-write-per-append sampling skipped")
        return
    with tmpdir("c16s_") as d:
        out = os.path.join(d, "trace.txt")
        job = {"log_dir": d, "stream": "t1.jsonl", "writer": "s", "n": 12, "sizes": [1, 100, 5000, 70000, 300000], "seed": 5}
        p = subprocess.run(["strace", "-f", "-e", "trace=write", "-o", out, bootstrap.PY, "-m", "vlib.logworker"], input=json.dumps(job).encode(),
                           capture_output=True, env=bootstrap.child_env(CLEMATIS_LOG_DIR=d, CI=None), cwd=bootstrap.VERIF, timeout=120)
        if p.returncode != 0 or not os.path.exists(out):
            sess.assume("strace could not trace in this sandbox: one-write-per-append sampling skipped")
            return
        lines = open(os.path.join(d, "t1.jsonl"), "rb").read().split(b"\n")
        sizes = sorted(len(l) + 1 for l in lines if l)
        writes = []
        for ln in open(out, errors="replace"):
            if "write(" in ln and "= " in ln:
                try:
                    fd = int(ln.split("write(")[1].split(",")[0])
                    ret = int(ln.rsplit("=", 1)[1].strip().split()[0])
                except Exception:
                    continue
                if fd >= 3 and ret > 0:
                    writes.append(ret)
        # every appended line must correspond to exactly one write of exactly its length
        big = sorted(w for w in writes if w in set(sizes))
        sess.count("strace_sampled_appends", len(sizes))
        sess.evaluations += 1
        remaining = list(writes)
        for s_ in sizes:
            if s_ in remaining:
                remaining.remove(s_)
            else:
                sess.violation("append-not-a-single-write", {"sizes": sizes}, {"line_bytes": s_, "writes": sorted(writes)[-12:]})
                return


# ------------------------------------------------------------------------------ (B)
def ref_normalise(name, rec, ci):
    if not ci:
        return rec
    out = dict(rec)
    if name == "t3_reflection.jsonl":
        if "ms" in out:
            out["ms"] = 0.0
        return out
    if name not in IDENTITY:
        return rec
    if "ms" in out:
        out["ms"] = 0.0
    out.pop("now", None)
    if name == "turn.jsonl":
        if isinstance(out.get("durations_ms"), dict):
            out["durations_ms"] = {k: 0.0 for k in out["durations_ms"]}
        if out.get("yielded"):
            out["yielded"] = True
            if "slice_idx" in out:
                try:
                    out["slice_idx"] = int(out["slice_idx"])
                except Exception:
                    pass
        else:
            out.pop("yielded", None)
            out.pop("slice_idx", None)
    return out


def normaliser_cases(rng, n, sess: Session):
    from clematis.engine.util.io_logging import normalize_for_identity

    names = sorted(STAGE_ORD) + ["gel.jsonl", "t3.jsonl", "custom.jsonl", "logs/t1.jsonl", "T1.JSONL"]
    old_ci = os.environ.get("CI")
    try:
        for _ in range(n):
            name = rng.choice(names)
            rec = {"turn": rng.choice([1, "x"]), "agent": "A", "pops": 3, "nested": {"ms": 4.0, "now": "keep"}}
            for k, vals in (("ms", [0.0, 1.5, 7, None, "x"]), ("now", ["2023-01-01T00:00:00Z", None]), ("durations_ms", [{"t1": 1.0, "total": 9.5}, {}, None, 5, {"x": {"y": 1}}]),
                            ("yielded", [True, False, 0, 1, None, "yes"]), ("slice_idx", [1, "2", None, "x", 2.5]), ("yield_reason", ["WALL_MS"]), ("ms_plan", [3.2])):
                if rng.random() < 0.6:
                    rec[k] = copy.deepcopy(rng.choice(vals))
            for ci in ("true", "TRUE", "1", None, "false"):
                if ci is None:
                    os.environ.pop("CI", None)
                else:
                    os.environ["CI"] = ci
                r0 = copy.deepcopy(rec)
                try:
                    got = normalize_for_identity(name, rec)
                    again = normalize_for_identity(name, copy.deepcopy(got))
                except Exception as ex:
                    sess.violation("normaliser-raises:" + type(ex).__name__, {"name": name, "rec": r0, "ci": ci}, repr(ex)[:200])
                    continue
                sess.evaluations += 1
                sess.count("normaliser_records")
                case = {"name": name, "rec": r0, "ci": ci}
                exp = ref_normalise(name, r0, (ci or "").lower() == "true")
                if rec != r0:
                    sess.violation("normaliser-mutates-input", case, None)
                if got != exp or list(got.keys()) != list(exp.keys()):
                    sess.violation("normaliser-touches-wrong-fields", case, {"got": got, "exp": exp})
                if again != got:
                    sess.violation("normaliser-not-idempotent", case, {"once": got, "twice": again})
                if got != r0:
                    sess.nontrivial.add(chash((name, sorted(r0))))
    finally:
        if old_ci is None:
            os.environ.pop("CI", None)
        else:
            os.environ["CI"] = old_ci


# ------------------------------------------------------------------------------ (C)
def staging_case(rng, sess: Session):
    import clematis.engine.orchestrator as orch
    import clematis.engine.orchestrator.parallel as P
    import clematis.engine.util.io_logging as IOL
    from clematis.engine.types import ApplyResult
    from vlib.harness import AD, to_ad

    nbuf = rng.randint(1, 5)
    same_turn = rng.random() < 0.6
    bufs = []
    for bi in range(nbuf):
        logs = []
        for _ in range(rng.randint(0, 8)):
            name = rng.choice(["t1.jsonl", "t2.jsonl", "t4.jsonl", "turn.jsonl", "t3_plan.jsonl", "odd.jsonl", "health.jsonl"])
            logs.append([name, {"turn": bi, "agent": f"A{bi}", "k": rng.randint(0, 9), "body": "x" * rng.choice([0, 1, 10, 100, 5000])}])
        bufs.append({"turn_id": 1 if same_turn else rng.choice([1, 2, 3]), "slice_idx": rng.choice([0, 0, 1, 2, bi]), "agent_id": f"A{bi}", "logs": logs})
    if rng.random() < 0.1:
        for b in bufs:
            b["turn_id"] = "x"  # a non-numeric turn id is shared by the whole batch (the driver clones ctx.turn_id)
    rng.shuffle(bufs)
    klass = "monotone" if [_bkey(b) for b in bufs] == sorted(_bkey(b) for b in bufs) else "out-of-key-order"
    case = {"bufs": bufs, "class": klass}

    # (C1) LogStager model
    st = IOL.LogStager(10 ** 9)
    token_s, token_e = IOL.STAGING_STATE.set(st), IOL.STAGING_ENABLED.set(True)
    try:
        staged = []
        for b in bufs:
            for name, payload in b["logs"]:
                try:
                    tid = int(b["turn_id"])
                except Exception:
                    continue
                key = IOL.default_key_for(file_path=name, turn_id=tid, slice_idx=b["slice_idx"])
                st.stage(name, key, dict(payload))
                staged.append((tid, STAGE_ORD.get(name, 99), b["slice_idx"], len(staged), name, payload))
        drained = [(r.file_path, r.payload) for r in st.drain_sorted()]
        exp = [(n, p) for _, _, _, _, n, p in sorted(staged, key=lambda t: (t[0], t[1], t[2], t[3], t[4]))]
        sess.evaluations += 1
        sess.count("stager_drains_checked")
        if drained != exp:
            sess.violation("drain-order-not-(turn,stage,slice,arrival)", case, {"got": [d[0] for d in drained][:10], "exp": [e[0] for e in exp][:10]})
        if st.drain_sorted() != []:
            sess.violation("drain-not-empty-after-drain", case, None)
    finally:
        IOL.STAGING_STATE.reset(token_s)
        IOL.STAGING_ENABLED.reset(token_e)

    # (C2) the real batch driver at many byte limits
    cfg = to_ad({"perf": {"parallel": {"enabled": True, "agents": True, "max_workers": 8}}, "t4": {}})
    from types import SimpleNamespace as NS

    def run(limit):
        written = []
        flushes = [0]
        by_agent = {b["agent_id"]: b for b in bufs}

        def compute(ctx, base, aid, text):
            b = by_agent[aid]
            return {"turn_id": b["turn_id"], "slice_idx": b["slice_idx"], "agent_id": aid, "logs": [(n, dict(p)) for n, p in b["logs"]], "deltas": [],
                    "dialogue": "u-" + aid, "graphs_touched": set(), "graph_versions": {}, "t2_info": {}, "plan_reflection": False}

        def apply_stub(ctx, state, t4):
            return ApplyResult(applied=0, clamps=0, version_etag="1", snapshot_path=None, metrics={"cache_invalidations": 0})

        def writer(path, payload):
            written.append((path, json.dumps(payload, sort_keys=True)))

        real_enable = IOL.enable_staging

        def enable():
            s_ = real_enable(limit) if limit is not None else real_enable()
            real_drain = s_.drain_sorted

            def counting():
                r = real_drain()
                if r:
                    flushes[0] += 1
                return r
            s_.drain_sorted = counting
            return s_

        ctx = NS(turn_id=1, agent_id="batch", cfg=cfg, config=cfg, now_ms=0)
        state = {"version_etag": "0"}
        with patched(orch, "_run_turn_compute", compute), patched(orch, "apply_changes", apply_stub), \
                patched(orch, "_append_jsonl_unbuffered", writer), patched(orch, "enable_staging", enable):
            res = P._run_agents_parallel_batch(ctx, state, [(b["agent_id"], "t") for b in bufs])
        per = {}
        for path, js in written:
            per.setdefault(path, []).append(js)
        return per, flushes[0], [r.line for r in res]

    try:
        base, f0, lines0 = run(None)
    except Exception as ex:
        sess.violation("driver-raises-at-default-limit:" + type(ex).__name__, case, repr(ex)[:200])
        return
    sizes = sorted({sum(len(str(k)) + len(str(v)) for k, v in p.items()) + 2 for b in bufs for _, p in b["logs"]} or {10})
    limits = [1, 2, sizes[0] - 1, sizes[0], sizes[0] + 1, sizes[-1], sizes[-1] + 1, 150, 4096, sum(sizes)]
    for lim in sorted({l for l in limits if l >= 1}):
        sess.evaluations += 1
        sess.count("driver_runs_at_byte_limits")
        try:
            per, fl, lines = run(lim)
        except RuntimeError as ex:
            if "LOG_STAGING_BACKPRESSURE" in str(ex):
                sess.violation("staging:limit-below-one-record-raises-out-of-driver", {**case, "limit": lim}, {"limit": lim, "smallest_record": sizes[0]})
                continue
            sess.violation("driver-raises:RuntimeError", {**case, "limit": lim}, repr(ex)[:200])
            continue
        except Exception as ex:
            sess.violation("driver-raises:" + type(ex).__name__, {**case, "limit": lim}, repr(ex)[:200])
            continue
        if fl > 1:
            sess.count("runs_with_backpressure_flush")
            sess.nontrivial.add(chash((case["bufs"], lim)))
        if lines != lines0:
            sess.violation("driver-results-depend-on-staging-limit", {**case, "limit": lim}, None)
        if per != base:
            diff = [p for p in set(per) | set(base) if per.get(p) != base.get(p)]
            mech = "staging:per-file-order-depends-on-limit"
            if klass != "monotone":
                mech += "(buffers-arrive-out-of-key-order)"
            sess.violation(mech, {**case, "limit": lim}, {"files": diff[:3], "limit": lim})
            break


def _bkey(b):
    try:
        return (0, int(b["turn_id"]), int(b["slice_idx"]))
    except Exception:
        return (1, str(b["turn_id"]), int(b["slice_idx"]))


# ------------------------------------------------------------------------------ (D)
def rewrite_case(rng, sess: Session):
    from clematis.io.log import append_jsonl, rewrite_jsonl
    from vlib.logworker import payload

    with tmpdir("c16r_") as d:
        old_env = {k: os.environ.get(k) for k in ("CLEMATIS_LOG_DIR", "CI")}
        os.environ["CLEMATIS_LOG_DIR"] = d
        ci = rng.random() < 0.5
        if ci:
            os.environ["CI"] = "true"
        else:
            os.environ.pop("CI", None)
        try:
            name = rng.choice(["t1.jsonl", "turn.jsonl", "custom.jsonl", "apply.jsonl"])
            recs = [payload(f"w{rng.randint(0, 2)}", i, rng.choice([0, 5, 300, 70000]), rng) for i in range(rng.randint(0, 12))]
            for r in recs:
                if rng.random() < 0.3:
                    r["durations_ms"] = {"t1": 2.5}
                if rng.random() < 0.2:
                    r["z"] = {"b": 1, "a": [1, {"d": 2, "c": 3}]}
                append_jsonl(name, r)
            path = os.path.join(d, name)
            before = [json.loads(l) for l in open(path, "rb").read().split(b"\n") if l] if os.path.exists(path) else []
            if before and rng.random() < 0.4:
                # the compaction's temp file accepts only part of each write (a short write, as under ENOSPC pressure or a
                # signal): either the rewrite completes with every record, or it raises and leaves the old log
                import clematis.io.atomic as A
                real_open = open
                chunk = rng.choice([1, 7, 100, 1000])

                class _Short:
                    def __init__(s_, f):
                        s_._f = f

                    def write(s_, data):
                        return s_._f.write(bytes(data)[:chunk])

                    def __enter__(s_):
                        return s_

                    def __exit__(s_, *a):
                        s_._f.close()
                        return False

                    def __getattr__(s_, k):
                        return getattr(s_._f, k)

                def open_short(pth, mode="r", *a, **k):
                    f = real_open(pth, mode, *a, **k)
                    return _Short(f) if "w" in mode and "b" in mode else f

                old_bytes = real_open(path, "rb").read()
                raised = None
                with patched(A, "open", open_short):
                    try:
                        rewrite_jsonl(name, before)
                    except Exception as ex:
                        raised = type(ex).__name__
                sess.count("rewrites_under_short_writes")
                now_bytes = real_open(path, "rb").read()
                want = "".join(json.dumps(ref_normalise(name, r_, ci), ensure_ascii=False, sort_keys=True, separators=(",", ":")) + "\n" for r_ in before).encode("utf-8")
                if now_bytes not in (old_bytes, want) or (raised is None and now_bytes != want):
                    sess.violation("rewrite-under-short-writes-lost-or-tore-records", {"name": name, "n": len(recs), "ci": ci, "chunk": chunk},
                                   {"raised": raised, "bytes_now": len(now_bytes), "bytes_complete": len(want), "bytes_old": len(old_bytes)})
                    return
            # the records may arrive as any iterable: a list, a generator, a one-shot iterator (streaming compaction)
            feed = rng.choice(["list", "generator", "iterator", "filter"])
            if feed == "list":
                rewrite_jsonl(name, before)
            elif feed == "generator":
                rewrite_jsonl(name, (r_ for r_ in before))
            elif feed == "iterator":
                rewrite_jsonl(name, iter(before))
            else:
                rewrite_jsonl(name, filter(lambda r_: True, before))
            sess.count("rewrites_fed_from_a_" + feed)
            b1 = open(path, "rb").read()
            try:
                after = [json.loads(l) for l in b1.split(b"\n") if l]
            except Exception as ex:
                sess.evaluations += 1
                sess.count("rewrites_checked")
                sess.violation("rewrite-produced-unparsable-line", {"name": name, "n": len(recs), "ci": ci, "records": before}, repr(ex)[:160])
                return
            rewrite_jsonl(name, after)
            b2 = open(path, "rb").read()
            sess.evaluations += 1
            sess.count("rewrites_checked")
            case = {"name": name, "n": len(recs), "ci": ci}
            exp = [ref_normalise(name, r, ci) for r in before]
            if after != exp:
                sess.violation("rewrite-changed-records-or-order", case, {"before": len(before), "after": len(after)})
            if b2 != b1:
                sess.violation("rewrite-not-idempotent", case, None)
            canon = "".join(json.dumps(r, ensure_ascii=False, sort_keys=True, separators=(",", ":")) + "\n" for r in exp).encode("utf-8")
            if b1 != canon:
                sess.violation("rewrite-not-canonical", case, None)
            left = [n for n in os.listdir(d) if n != name]
            if left:
                sess.violation("rewrite-left-temp-files", case, left)
            if recs:
                sess.nontrivial.add(chash(case))
        finally:
            for k, v in old_env.items():
                if v is None:
                    os.environ.pop(k, None)
                else:
                    os.environ[k] = v


# ------------------------------------------------------------------------------ (E)
def gens_of(d, base):
    out = {}
    for n in os.listdir(d):
        if n == base:
            out[0] = open(os.path.join(d, n)).read()
        elif n.startswith(base + ".") and n[len(base) + 1:].isdigit():
            out[int(n[len(base) + 1:])] = open(os.path.join(d, n)).read()
        else:
            out["junk:" + n] = None
    return out


def rotation_case(rng, sess: Session):
    import clematis.scripts.rotate_logs as R
    import clematis.io.atomic as A

    with tmpdir("c16g_") as d:
        base = "t1.jsonl"
        path = os.path.join(d, base)
        # also generation numbers with two and three digits (numeric, not lexicographic, order: .9 < .10 < .11, .99 < .100)
        backups = rng.choice([1, 2, 3, 4, 5, 1, 2, 3, 4, 5, 9, 10, 11, 12, 15, 101])
        uid = [0]

        def fresh():
            uid[0] += 1
            return f"content-{uid[0]}\n"

        # pre-existing generations with gaps and beyond N
        dense = rng.random() < 0.5
        for k in range(1, backups + 3):
            if rng.random() < (0.5 if backups <= 15 or dense else 0.05) or (backups > 15 and 97 <= k <= 101 and rng.random() < 0.7):
                open(f"{path}.{k}", "w").write(fresh())
        if backups >= 9:
            sess.count("rotation_histories_with_multi_digit_generations")
        history = []
        for rnd in range(rng.randint(1, 12)):
            if rng.random() < 0.8:
                open(path, "w").write(fresh())
            before = gens_of(d, base)
            fault = rng.choice([None, None, "interrupt", "rename-fails"])
            step = rng.randint(1, backups + 1)
            calls = [0]
            real_replace = os.replace

            class Interrupt(BaseException):
                pass

            def faulty(a, b):
                calls[0] += 1
                if calls[0] == step:
                    if fault == "interrupt":
                        raise Interrupt()
                    raise OSError(errno.EIO, "injected")
                return real_replace(a, b)

            raised = None
            try:
                if fault:
                    with patched(A.os, "replace", faulty):
                        ok = R.rotate_one(path, backups=backups)
                else:
                    ok = R.rotate_one(path, backups=backups)
            except Interrupt:
                raised = "interrupt"
            except OSError as ex:
                raised = "oserror"
            except Exception as ex:
                sess.violation("rotate-raises:" + type(ex).__name__, {"backups": backups, "history": history}, repr(ex)[:200])
                return
            after = gens_of(d, base)
            sess.evaluations += 1
            sess.count("rotation_rounds")
            case = {"backups": backups, "before": {str(k): v for k, v in before.items()}, "fault": fault, "step": step}
            fired = bool(fault) and calls[0] >= step
            if fired:
                sess.count("rotation_faults_fired:" + fault)
            contents_before = [v for k, v in before.items() if isinstance(k, int)]
            contents_after = [v for k, v in after.items() if isinstance(k, int)]
            # nothing duplicated
            if len(set(contents_after)) != len(contents_after):
                sess.violation("rotation-duplicated-a-generation", case, {"after": {str(k): v for k, v in after.items()}})
            # nothing but the oldest in-window generation (index == backups) may disappear
            lost = [v for k, v in before.items() if isinstance(k, int) and v not in contents_after]
            allowed = {before.get(backups)}
            bad = [v for v in lost if v not in allowed]
            if bad:
                mech = "rotation-lost-a-generation"
                if fired and fault == "rename-fails":
                    mech = "rotation-lost-a-generation(rename-failed)"
                elif fired and fault == "interrupt":
                    mech = "rotation-lost-a-generation(interrupted)"
                sess.violation(mech, case, {"lost": bad, "after": {str(k): v for k, v in after.items()}})
                return
            # order: relative age order preserved (older content never gets a smaller index than newer content)
            idx_b = {v: k for k, v in before.items() if isinstance(k, int)}
            idx_a = {v: k for k, v in after.items() if isinstance(k, int)}
            common = [v for v in idx_b if v in idx_a]
            for x in common:
                for y in common:
                    if idx_b[x] < idx_b[y] and not idx_a[x] < idx_a[y]:
                        sess.violation("rotation-reordered-generations", case, {"after": {str(k): v for k, v in after.items()}})
                        return
            if not fired and raised is None:
                # shift model
                exp = {}
                for k, v in before.items():
                    if not isinstance(k, int):
                        continue
                    if k == backups:
                        continue  # dropped
                    if k < backups:
                        exp[k + 1] = v
                    else:
                        exp[k] = v  # beyond the window: untouched
                if {k: v for k, v in after.items() if isinstance(k, int)} != exp:
                    sess.violation("rotation-differs-from-shift-model", case, {"after": {str(k): v for k, v in after.items()}, "model": {str(k): v for k, v in exp.items()}})
                    return
                if (0 in before) != bool(ok):
                    sess.violation("rotate_one-return-value", case, ok)
            if any(isinstance(k, str) for k in after):
                sess.violation("rotation-left-junk-files", case, [k for k in after if isinstance(k, str)])
            if before != after:
                sess.nontrivial.add(chash(case))
            history.append({"fault": fault, "step": step})


# ------------------------------------------------------------------------------ driver
# ------------------------------------------------------------------------------ (F) scripted multi-process history
def scripted_case(rng, sess: Session):
    """Several long-lived writer processes and a rotator are driven step by step (every append returns before the next
    command is issued), so the history is sequential across processes: reading the generations oldest -> newest must
    give exactly the issued appends in issue order (minus whole generations dropped as oldest)."""
    import subprocess
    from clematis.scripts.rotate_logs import rotate_one
    from vlib import bootstrap

    nw = rng.randint(2, 3)
    backups = rng.choice([1, 2, 5, 100])
    steps = []
    for _ in range(rng.randint(8, 40)):
        r = rng.random()
        steps.append(["rotate"] if r < 0.2 else ["append", rng.randrange(nw)])
    with tmpdir("c16s_") as d:
        name = "scripted.jsonl"
        path = os.path.join(d, name)
        procs = []
        try:
            for w in range(nw):
                p = subprocess.Popen([bootstrap.PY, "-m", "vlib.logworker"], stdin=subprocess.PIPE, stdout=subprocess.PIPE, stderr=subprocess.DEVNULL, text=True,
                                     env=bootstrap.child_env(), cwd=bootstrap.VERIF)
                p.stdin.write(json.dumps({"log_dir": d, "stream": name, "serve": True}) + "\n")
                p.stdin.flush()
                if not p.stdout.readline():
                    sess.inconclusive_because("scripted writer did not start")
                    return
                procs.append(p)
            issued = []
            dropped_possible = False
            for st in steps:
                if st[0] == "rotate":
                    if os.path.exists(path):
                        rotate_one(path, backups=backups)
                        sess.count("scripted_rotations")
                    continue
                rec = {"w": st[1], "seq": len(issued), "body": "x" * rng.choice([1, 10, 200])}
                procs[st[1]].stdin.write(json.dumps({"append": rec}) + "\n")
                procs[st[1]].stdin.flush()
                rep = procs[st[1]].stdout.readline()
                if not rep or "ok" not in rep:
                    sess.violation("scripted:append-failed", {"steps": steps, "backups": backups}, rep[:200] if rep else "writer died")
                    return
                issued.append(rec["seq"])
            got = []
            for f in read_generations(path):
                for ln in open(f, "rb").read().split(b"\n"):
                    if ln:
                        try:
                            got.append(json.loads(ln)["seq"])
                        except Exception:
                            sess.violation("torn-or-unparsable-line", {"steps": steps, "backups": backups}, ln[:80].decode("utf-8", "replace"))
                            return
            sess.evaluations += 1
            sess.count("scripted_histories")
            sess.count("scripted_appends", len(issued))
            case = {"steps": steps, "backups": backups, "writers": nw}
            if sum(1 for s_ in steps if s_[0] == "rotate"):
                sess.nontrivial.add(chash(case))
            # with `backups` generations kept, everything older may have been dropped: got must be a suffix of issued
            if got != issued[len(issued) - len(got):]:
                sess.violation("scripted:generations-not-in-append-order-or-record-misplaced", case, {"on_disk_oldest_to_newest": got[:40], "issued": issued[:40]})
            elif backups >= 100 and len(got) != len(issued):
                sess.violation("record-lost", case, {"on_disk": len(got), "issued": len(issued)})
        finally:
            for p in procs:
                try:
                    p.stdin.write(json.dumps({"quit": 1}) + "\n")
                    p.stdin.flush()
                    p.stdin.close()
                except Exception:
                    pass
            for p in procs:
                try:
                    p.wait(timeout=10)
                except Exception:
                    p.kill()


# ------------------------------------------------------------------------------ (G) first appends into a fresh directory
def fresh_dir_case(rng, sess: Session):
    """Several writers make their first append at the same moment into a log directory that does not exist yet (a thread
    switch is offered at every statement of the path helpers): every record must arrive, nobody may raise."""
    import inspect
    import clematis.io.paths as paths_mod
    from clematis.io.log import append_jsonl
    from vlib.harness import line_yields

    nt = rng.choice([2, 3, 4, 6])
    with tmpdir("c16f_") as d:
        target = os.path.join(d, "not", "yet", f"there{rng.randint(0, 9)}")
        old_env = {k: os.environ.get(k) for k in ("CLEMATIS_LOG_DIR", "CI")}
        os.environ["CLEMATIS_LOG_DIR"] = target
        os.environ.pop("CI", None)
        errors = []
        barrier = threading.Barrier(nt)

        def w(i):
            try:
                barrier.wait(10)
                append_jsonl("fresh.jsonl", {"w": i, "seq": 0})
                append_jsonl("fresh.jsonl", {"w": i, "seq": 1})
            except Exception as ex:
                errors.append((i, f"{type(ex).__name__}: {ex}"[:160]))

        codes = [f.__code__ for f in vars(paths_mod).values() if inspect.isfunction(f) and f.__module__ == paths_mod.__name__]
        old_si = sys.getswitchinterval()
        sys.setswitchinterval(1e-6)
        try:
            with line_yields(codes, prob=0.5, seed=rng.randint(0, 10 ** 6), tool=5, name="verif-c16") as inj:
                ths = [threading.Thread(target=w, args=(i,)) for i in range(nt)]
                for t in ths:
                    t.start()
                for t in ths:
                    t.join(30)
            sess.count("fresh_dir_yields_injected", inj[0])
        finally:
            sys.setswitchinterval(old_si)
            for k, v in old_env.items():
                if v is None:
                    os.environ.pop(k, None)
                else:
                    os.environ[k] = v
        sess.evaluations += 1
        sess.count("fresh_directory_first_appends")
        case = {"writers": nt}
        got = []
        pth = os.path.join(target, "fresh.jsonl")
        if os.path.exists(pth):
            got = sorted((json.loads(l)["w"], json.loads(l)["seq"]) for l in open(pth, "rb").read().split(b"\n") if l)
        if errors:
            sess.violation("writer-raised:first-append-into-a-fresh-directory", case, errors[:3])
        elif got != sorted((i, q) for i in range(nt) for q in (0, 1)):
            sess.violation("record-lost:first-append-into-a-fresh-directory", case, {"got": got})
        else:
            sess.nontrivial.add(chash(("fresh", nt, inj[0])))


def poison_case(rng, sess: Session):
    """Records the UTF-8 encoder cannot take (lone surrogates, as PEP 383 decoding of foreign bytes produces them) among
    sound ones: a record is either refused (the append raises, nothing of it reaches the file) or it is one complete UTF-8
    JSON line that reads back as the record; the stream stays readable as UTF-8 text throughout."""
    from clematis.io.log import append_jsonl, _append_jsonl_unbuffered

    with tmpdir("c16p_") as d:
        old_env = {k: os.environ.get(k) for k in ("CLEMATIS_LOG_DIR", "CI")}
        os.environ["CLEMATIS_LOG_DIR"] = d
        os.environ.pop("CI", None)
        try:
            name = rng.choice(["custom.jsonl", "t1.jsonl"])
            accepted, refused = [], 0
            for i in range(rng.randint(3, 10)):
                kind = rng.choice(["sound", "sound", "astral", "lone-low", "lone-high", "escape-byte", "in-key"])
                rec = {"i": i, "text": "plain é 中"}
                if kind == "astral":
                    rec["text"] = "\U0001f600 \U00010000"
                elif kind == "lone-low":
                    rec["text"] = "x\udc80y"
                elif kind == "lone-high":
                    rec["text"] = "\ud83dz"
                elif kind == "escape-byte":
                    rec["text"] = os.fsdecode(b"caf\xe9 \xff")
                elif kind == "in-key":
                    rec = {"i": i, "k\udcffey": 1}
                writer = append_jsonl if rng.random() < 0.6 else _append_jsonl_unbuffered
                try:
                    writer(name, rec)
                    accepted.append(rec)
                except Exception:
                    refused += 1
            sess.evaluations += 1
            sess.count("poison_histories")
            sess.count("records_refused_by_the_writer", refused)
            pth = os.path.join(d, name)
            raw = open(pth, "rb").read() if os.path.exists(pth) else b""
            case = {"poison": True, "accepted": len(accepted), "refused": refused}
            try:
                txt = raw.decode("utf-8")
            except UnicodeDecodeError as ex:
                sess.violation("stream-is-not-utf-8-text-after-an-unencodable-record", case, str(ex)[:120])
                return
            lines = txt.split("\n")
            if raw and lines[-1] != "":
                sess.violation("stream-does-not-end-with-a-line-feed", case, None)
                return
            try:
                got = [json.loads(l) for l in lines[:-1]] if raw else []
            except Exception as ex:
                sess.violation("line-is-not-json-after-an-unencodable-record", case, repr(ex)[:120])
                return
            if got != accepted:
                sess.violation("accepted-records-differ-from-the-lines-on-disk", case, {"on_disk": len(got), "accepted": len(accepted)})
            elif refused:
                sess.nontrivial.add(chash(("poison", len(accepted), refused, name)))
        finally:
            for k, v in old_env.items():
                if v is None:
                    os.environ.pop(k, None)
                else:
                    os.environ[k] = v


def concurrent_rewrite_case(rng, sess: Session):
    """Two compactions of one stream at the same moment (a thread switch offered at every statement of the atomic writer):
    neither raises, the log afterwards is exactly one of the two record sets, nothing else is left in the directory."""
    import inspect
    import clematis.io.atomic as A
    from clematis.io.log import rewrite_jsonl
    from vlib.harness import line_yields

    with tmpdir("c16x_") as d:
        old_env = {k: os.environ.get(k) for k in ("CLEMATIS_LOG_DIR", "CI")}
        os.environ["CLEMATIS_LOG_DIR"] = d
        os.environ.pop("CI", None)
        name = rng.choice(["custom.jsonl", "t1.jsonl"])
        nthreads = rng.choice([2, 2, 3])
        sets = [[{"set": w, "i": i, "pad": "x" * rng.choice([0, 10, 5000, 70000])} for i in range(rng.randint(1, 6))] for w in range(nthreads)]
        rewrite_jsonl(name, [{"set": "old", "i": 0}])
        errors = []
        barrier = threading.Barrier(nthreads)

        def w(k):
            try:
                barrier.wait(10)
                rewrite_jsonl(name, sets[k])
            except Exception as ex:
                errors.append((k, f"{type(ex).__name__}: {ex}"[:160]))

        codes = [f.__code__ for f in vars(A).values() if inspect.isfunction(f) and f.__module__ == A.__name__]
        old_si = sys.getswitchinterval()
        sys.setswitchinterval(1e-6)
        try:
            with line_yields(codes, prob=0.6, seed=rng.randint(0, 10 ** 6), tool=5, name="verif-c16") as inj:
                ths = [threading.Thread(target=w, args=(k,)) for k in range(nthreads)]
                for t in ths:
                    t.start()
                for t in ths:
                    t.join(60)
            sess.count("concurrent_rewrite_yields_injected", inj[0])
        finally:
            sys.setswitchinterval(old_si)
            for k, v in old_env.items():
                if v is None:
                    os.environ.pop(k, None)
                else:
                    os.environ[k] = v
        sess.evaluations += 1
        sess.count("concurrent_rewrites")
        case = {"concurrent_rewrite": True, "threads": nthreads, "sizes": [len(x) for x in sets]}
        got = open(os.path.join(d, name), "rb").read()
        wants = ["".join(json.dumps(r, ensure_ascii=False, sort_keys=True, separators=(",", ":")) + "\n" for r in x).encode("utf-8") for x in sets]
        left = [n for n in os.listdir(d) if n != name]
        if errors:
            sess.violation("concurrent-rewrite-raised", case, errors[:3])
        elif got not in wants:
            sess.violation("concurrent-rewrites-left-a-mixture-of-record-sets", case, {"bytes": len(got), "candidates": [len(x) for x in wants], "head": got[:80].decode("utf-8", "replace")})
        elif left:
            sess.violation("rewrite-left-temp-files", case, left)
        else:
            sess.nontrivial.add(chash(("xrewrite", nthreads, inj[0])))


def capture_case(rng, sess: Session):
    """Deferred writing (log capture): writers append through the public writer while captures are opened, nested
    (`use_mux`, the orchestrator's begin/end helpers, the compute phase of the batch driver) and closed again, each closed
    capture being flushed where it was opened.  Model: a stack of buffers per writer; a record goes into the innermost open
    buffer or to disk; a flushed buffer is replayed into whatever is innermost then.  At every step the files hold exactly
    the model's disk content: each record once, a writer's records in the order they were emitted, nothing on disk early."""
    import clematis.engine.orchestrator as orch
    import clematis.engine.orchestrator.core as orch_core
    import clematis.engine.orchestrator.parallel as orch_par
    from clematis.engine.util import logmux
    from clematis.io.log import append_jsonl
    from types import SimpleNamespace as SNS

    nthreads = rng.choice([1, 1, 2, 3])
    scripts = []
    for w in range(nthreads):
        ops, depth = [], 0
        for _ in range(rng.randint(4, 18)):
            r = rng.random()
            if r < 0.45:
                ops.append(("rec", rng.choice(["own", "own", "shared"])))
            elif r < 0.65 and depth < 3:
                ops.append(("open", rng.choice(["use_mux", "helpers"])))
                depth += 1
            elif r < 0.85 and depth > 0:
                ops.append(("close", rng.choice(["flush", "flush", "drop"])))
                depth -= 1
            elif r < 0.9 and depth > 0:
                ops.append(("checkpoint", None))  # the open capture is dumped and cleared; what it held is flushed at its close
            elif r < 0.97:
                ops.append(("compute", rng.randint(0, 3)))
            else:
                ops.append(("burst", rng.choice([150, 1000, 5000])))  # a chatty phase: thousands of records inside one capture
        while depth:
            ops.append(("close", "flush"))
            depth -= 1
        scripts.append(ops)
    case = {"capture_scripts": scripts}
    with tmpdir("c16m_") as d:
        old_env = {k: os.environ.get(k) for k in ("CLEMATIS_LOG_DIR", "CI")}
        os.environ["CLEMATIS_LOG_DIR"] = d
        os.environ.pop("CI", None)
        real_run_turn = orch_core.Orchestrator.run_turn

        def fake_run_turn(self, ctx, state, input_text):  # the stages of the compute phase: they only log
            for j in range(int(input_text)):
                append_jsonl("t1.jsonl", {"turn": ctx.turn_id, "agent": ctx.agent_id, "j": j})
            return None

        problems = []
        lock = threading.Lock()

        def on_disk(name):
            pth = os.path.join(d, name)
            if not os.path.exists(pth):
                return []
            raw = open(pth, "rb").read()
            return [json.loads(x) for x in raw.split(b"\n") if x]

        def writer(w):
            try:
                stack = []       # [(kind, real handle, model buffer)]
                disk = []        # model of this writer's records on disk, in order: (stream, rec)
                n = 0

                tally = {"count": 0, "seen": []}

                def emit(stream, rec):
                    (stack[-1][2] if stack else disk).append((stream, copy.deepcopy(rec)))

                def check(step):
                    for stream in (f"w{w}.jsonl",):
                        want = [r for s_, r in disk if s_ == stream]
                        got = on_disk(stream)
                        if got != want:
                            problems.append({"writer": w, "step": step, "stream": stream, "on_disk": got[:8], "model": want[:8]})
                            return False
                    top = logmux.LOG_MUX.get()
                    want_top = stack[-1][1]["mux"] if stack else None
                    if top is not want_top:
                        problems.append({"writer": w, "step": step, "active_capture": "not the innermost open one" if top is not None else "none although one is open"})
                        return False
                    return True

                for step, (op, arg) in enumerate(scripts[w]):
                    if op == "rec":
                        stream = f"w{w}.jsonl" if arg == "own" else "shared.jsonl"
                        rec = {"w": w, "n": n}
                        if n % 3 == 0:
                            # one object logged again and again and updated in between (a running tally): every line carries
                            # the value it had when it was logged
                            tally["count"] += 1
                            tally["seen"].append(n)
                            rec["tally"] = tally
                        n += 1
                        append_jsonl(stream, rec)
                        emit(stream, rec)
                    elif op == "burst":
                        for _b in range(arg):
                            rec = {"w": w, "n": n}
                            n += 1
                            append_jsonl(f"w{w}.jsonl", rec)
                            emit(f"w{w}.jsonl", rec)
                        if stack:
                            with lock:
                                burst_seen.append(arg)
                    elif op == "open":
                        if arg == "use_mux":
                            m = logmux.LogMux()
                            cm = logmux.use_mux(m)
                            cm.__enter__()
                            stack.append((arg, {"mux": m, "cm": cm}, []))
                        else:
                            m, tok = orch._begin_log_capture()
                            stack.append((arg, {"mux": m, "tok": tok}, []))
                    elif op == "checkpoint":
                        kind, h, buf = stack[-1]
                        h.setdefault("held", []).append(h["mux"].dump())
                        h["mux"].clear()
                        h.setdefault("held_model", []).append(list(buf))
                        del buf[:]
                    elif op == "close":
                        kind, h, buf = stack.pop()
                        pairs = h["mux"].dump()
                        if h.get("held"):
                            # the chunks taken at the checkpoints come first, in the order they were taken
                            pairs = [x for chunk in h["held"] for x in chunk] + list(pairs)
                            buf[:0] = [x for chunk in h["held_model"] for x in chunk]
                        if kind == "use_mux":
                            h["cm"].__exit__(None, None, None)
                        else:
                            orch._end_log_capture(h["tok"])
                        if [(s_, r) for s_, r in pairs] != buf:
                            problems.append({"writer": w, "step": step, "capture_holds": pairs[:8], "model": buf[:8]})
                            break
                        if arg == "flush":
                            logmux.flush(pairs)
                            for s_, r in buf:
                                emit(s_, r)
                    else:
                        ctx = SNS(cfg={}, config={}, turn_id=100 * w + step, slice_idx=0)
                        b = orch_par._run_turn_compute(ctx, {}, f"A{w}", str(arg))
                        want = [("t1.jsonl", {"turn": 100 * w + step, "agent": f"A{w}", "j": j}) for j in range(arg)]
                        if [(s_, r) for s_, r in b["logs"]] != want:
                            problems.append({"writer": w, "step": step, "compute_buffer": b["logs"][:6], "model": want[:6]})
                            break
                    if not check(step):
                        break
                with lock:
                    results[w] = disk
            except Exception as ex:
                import traceback
                problems.append({"writer": w, "raised": f"{type(ex).__name__}: {ex}"[:160], "tb": traceback.format_exc()[-300:]})

        results = {}
        burst_seen = []
        orch_core.Orchestrator.run_turn = fake_run_turn
        try:
            if nthreads == 1:
                import contextvars
                contextvars.copy_context().run(writer, 0)
            else:
                ths = [threading.Thread(target=writer, args=(w,)) for w in range(nthreads)]
                for t in ths:
                    t.start()
                for t in ths:
                    t.join(60)
        finally:
            orch_core.Orchestrator.run_turn = real_run_turn
            for k, v in old_env.items():
                if v is None:
                    os.environ.pop(k, None)
                else:
                    os.environ[k] = v
        sess.evaluations += 1
        sess.count("capture_histories")
        sess.count("capture_ops", sum(len(x) for x in scripts))
        sess.count("capture_bursts_inside_a_capture", len(burst_seen))
        sess.count("capture_bursts_of_5000_inside_a_capture", sum(1 for b_ in burst_seen if b_ >= 5000))
        sess.count("nested_captures", sum(1 for ops in scripts for i, o in enumerate(ops) if o[0] == "open" and any(q[0] == "open" for q in ops[:i])))
        if not problems and len(results) == nthreads:
            shared = on_disk("shared.jsonl")
            for w in range(nthreads):
                want = [r for s_, r in results[w] if s_ == "shared.jsonl"]
                got = [r for r in shared if r.get("w") == w]
                if got != want:
                    problems.append({"writer": w, "stream": "shared.jsonl", "on_disk": got[:8], "model": want[:8]})
            if on_disk("t1.jsonl"):
                problems.append({"stream": "t1.jsonl", "on_disk": "records of a compute phase reached the disk although its buffer was never flushed"})
        if problems:
            sess.violation("capture:records-reordered-lost-or-written-early", case, problems[:3])
        else:
            sess.nontrivial.add(chash(("capture", json.dumps(scripts))))


def gen_writer_case(rng, tier):
    big = tier == "thorough"
    sizes = rng.choice([[1, 10, 200], [1, 200, 5000, 70000], [100, 70000, 300000], [1, 1048576] if big else [1, 200000], [50]])
    return {"stream": rng.choice(["t1.jsonl", "custom.jsonl", "turn.jsonl"]), "threads": rng.choice([0, 2, 4, 8]), "procs": rng.choice([0, 2, 3] + ([6] if big else [])),
            "n": rng.choice([50, 200] + ([1000] if big else [])) if max(sizes) < 100000 else 30, "sizes": sizes, "rotate": rng.random() < 0.4,
            "rotate_at": rng.choice([2000, 50000]), "seed": rng.randint(0, 10 ** 6)}


def _work(args):
    what, tier, seed, i = args
    from vlib import bootstrap

    bootstrap.init()
    sess = Session.worker(PID, tier, seed)
    rng = random.Random(f"C16/{what}/{seed}/{i}")
    q = tier == "quick"
    try:
        if what == "writers":
            for _ in range(4 if q else 25):
                c = gen_writer_case(rng, tier)
                if c["threads"] + c["procs"] == 0:
                    c["threads"] = 2
                writers_case(c, sess)
            if i == 0:
                strace_sample(sess)
        elif what == "norm":
            normaliser_cases(rng, 150 if q else 5000, sess)
        elif what == "staging":
            for _ in range(25 if q else 800):
                staging_case(rng, sess)
        elif what == "rewrite":
            for _ in range(25 if q else 800):
                rewrite_case(rng, sess)
        elif what == "rotation":
            for _ in range(20 if q else 600):
                rotation_case(rng, sess)
        elif what == "scripted":
            for _ in range(6 if q else 150):
                scripted_case(rng, sess)
            for _ in range(15 if q else 300):
                fresh_dir_case(rng, sess)
            for _ in range(40 if q else 1500):
                capture_case(rng, sess)
            for _ in range(12 if q else 400):
                concurrent_rewrite_case(rng, sess)
            for _ in range(30 if q else 1000):
                poison_case(rng, sess)
    except Exception as ex:
        import traceback
        sess.inconclusive_because(f"harness error {type(ex).__name__}: {ex} @ {traceback.format_exc()[-500:]}")
    return sess.export()


def main(tier: str, seed: int):
    sess = Session(PID, tier, seed, level="exploration", rule=RULE)
    sess.assume("writers and the rotator run on a local POSIX file system (O_APPEND semantics); generations are read oldest -> newest")
    sess.assume("the rotator keeps 100000 generations in the concurrent runs so that only the properties of appends are judged there; dropping the oldest generation is judged in the rotation histories")
    jobs = [("writers", tier, seed, i) for i in range(6 if tier == "quick" else 14)]
    for what, n in (("norm", 2), ("staging", 3), ("rewrite", 2), ("rotation", 3), ("scripted", 3)):
        jobs += [(what, tier, seed, i) for i in range(n if tier == "quick" else 6)]
    for ex in par.pmap(_work, jobs):
        sess.merge(ex)
    sess.require("concurrent_writer_runs", 10)
    sess.require("appended_records_verified", 2500)
    sess.require("writer_interleavings_observed", 100)
    sess.require("normaliser_records", 1000)
    sess.require("stager_drains_checked", 50)
    sess.require("driver_runs_at_byte_limits", 300)
    sess.require("runs_with_backpressure_flush", 30)
    sess.require("rewrites_checked", 40)
    sess.require("rotation_rounds", 200)
    sess.require("rotation_faults_fired:interrupt", 10)
    sess.require("scripted_histories", 12)
    sess.require("fresh_directory_first_appends", 30)
    sess.require("rewrites_under_short_writes", 8)
    sess.require("scripted_rotations", 10)
    sess.require("rotation_histories_with_multi_digit_generations", 8)
    sess.require("capture_histories", 100)
    sess.require("concurrent_rewrites", 30)
    sess.require("poison_histories", 60)
    sess.require("records_refused_by_the_writer", 20)
    sess.require("capture_bursts_of_5000_inside_a_capture", 2)
    sess.require("nested_captures", 50)
    sess.finish()


def replay(body, tier, seed):
    sess = Session(PID, tier, seed, rule=RULE)
    sess.replay_mode = True
    case = unjson(body["case"])
    rng = random.Random(0)
    if "threads" in case:
        writers_case(case, sess)
    elif "poison" in case:
        for _ in range(300):
            poison_case(rng, sess)
    elif "concurrent_rewrite" in case:
        for _ in range(200):
            concurrent_rewrite_case(rng, sess)
    elif "capture_scripts" in case:
        for _ in range(300):
            capture_case(rng, sess)
    elif "bufs" in case:
        for _ in range(200):
            staging_case(rng, sess)
    elif "backups" in case:
        for _ in range(300):
            rotation_case(rng, sess)
    elif "rec" in case:
        normaliser_cases(rng, 300, sess)
    else:
        for _ in range(100):
            rewrite_case(rng, sess)
    return sess.finish(exit_process=False)
