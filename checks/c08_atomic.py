"""C08 - Durable files are replaced all-or-nothing.

Monitors:
  (1) in-process fault enumeration: a tracing pass records the sequence of I/O steps a write makes through
      clematis.io.atomic (temp creation, open, write, flush, fsync, chmod, replace, target open/fsync,
      directory open/fsync/close); then one run per (step index x fault) with fault in {EIO, ENOSPC,
      EACCES, EPERM, EBUSY, transient-then-success, short write, kill}, for the callers
      atomic_write_bytes/text/json, write_snapshot (body + sidecar), _write_lines and rewrite_jsonl, old
      content present/absent, several sizes.  Oracle: destination sha in {old, new}; a call that returned
      normally left the new content; after a *raising* write no sibling temp remains; after a *kill* a
      leftover is neither picked by snapshot discovery nor matched by the log glob;
  (2) system-call level, real process under strace: every openat/write/fsync/chmod/rename/unlink issued
      by the writer after its marker is failed with an errno, short-written (retval) or hit by SIGKILL;
      same content / leftover oracle on the real file system;
  (1b) content-caused failures (a lone surrogate that cannot be encoded) for the text / JSON / compaction writers, and the
      structural oracle "content changed => the destination is a new inode" on every in-process run (an in-place
      modification cannot be atomic for a reader), incl. a compaction whose old content is a byte prefix of the new one;
  (3) concurrent readers (threads + processes) loop open/read while a writer alternates two contents of
      different lengths: every read must be one complete content.
"""
from __future__ import annotations

import errno
import hashlib
import json
import os
import random
import shutil
import subprocess
import sys
import threading
import time
from pathlib import Path
from types import SimpleNamespace as NS

from vlib import par
from vlib.harness import tmpdir, patched, to_ad
from vlib.session import Session, unjson, chash

PID = "C08"
RULE = ("one evaluation = one write under one injected fault (in-process step x fault, or strace syscall x fault) or one "
        "concurrent-reader run; non-trivial = the fault fired inside the write (the call raised, was killed or needed a retry)")
ERRNOS = {"EIO": errno.EIO, "ENOSPC": errno.ENOSPC, "EACCES": errno.EACCES, "EPERM": errno.EPERM, "EBUSY": errno.EBUSY, "ENOENT": errno.ENOENT, "EXDEV": errno.EXDEV}


class Kill(BaseException):
    pass


def sha(b):
    return hashlib.sha256(b).hexdigest()[:16]


# ------------------------------------------------------------------------------ in-process proxies
class Plan:
    def __init__(self, at=None, kind=None, err=None, times=1):
        self.at, self.kind, self.err, self.times = at, kind, err, times
        self.step = 0
        self.steps = []
        self.fired = 0
        self.probes = []
        self.staged = []
        self.dirty = {}      # inode -> written since its last successful fsync
        self.unsynced = []   # destinations whose staged file was renamed into place with unsynced data

    def hit(self, name):
        """Called at every intercepted I/O step.  Returns 'short' for a short write; raises for faults."""
        self.step += 1
        self.steps.append(name)
        if self.at is None or self.step < self.at:
            return None
        if self.kind == "kill" and self.step == self.at:
            self.fired += 1
            raise Kill()
        if self.kind == "short" and self.step == self.at and name == "write":
            self.fired += 1
            return "short"
        if self.kind == "errno" and self.step == self.at:
            self.fired += 1
            raise OSError(self.err, os.strerror(self.err))
        if self.kind == "transient" and name == self.steps[self.at - 1] and self.fired < self.times and self.step >= self.at:
            self.fired += 1
            if self.err in (errno.EACCES, errno.EPERM):
                raise PermissionError(self.err, os.strerror(self.err))
            raise OSError(self.err, os.strerror(self.err))
        return None


class FileProxy:
    def __init__(self, f, plan, label):
        self._f, self._p, self._label = f, plan, label

    def write(self, data):
        r = self._p.hit("write")
        try:
            self._p.dirty[os.fstat(self._f.fileno()).st_ino] = True
        except Exception:
            pass
        if r == "short":
            k = max(0, len(data) // 2)
            self._f.write(data[:k])
            return k
        return self._f.write(data)

    def flush(self):
        self._p.hit("flush")
        return self._f.flush()

    def fileno(self):
        return self._f.fileno()

    def __enter__(self):
        return self

    def __exit__(self, *a):
        self._f.close()
        return False

    def __getattr__(self, k):
        return getattr(self._f, k)


class OsProxy:
    def __init__(self, plan):
        self._p = plan

    def fsync(self, fd):
        self._p.hit("fsync")
        r = os.fsync(fd)
        try:
            self._p.dirty[os.fstat(fd).st_ino] = False
        except Exception:
            pass
        return r

    def chmod(self, *a, **k):
        self._p.hit("chmod")
        return os.chmod(*a, **k)

    def replace(self, a, b):
        # what a concurrent reader would see at this instant (before the attempt)
        self._p.probes.append(os.path.exists(b))
        # what is about to be published: the staged file as it is on disk at the rename (a reader, or a process that dies
        # right after the rename, sees exactly this)
        try:
            with open(a, "rb") as f_:
                self._p.staged.append((os.path.basename(str(b)), sha(f_.read())))
        except OSError:
            self._p.staged.append((os.path.basename(str(b)), None))
        # ... and what a machine that loses power right after the rename keeps: only what was fsynced.  The staged file must
        # not carry data written after its last fsync (the documented order: write, fsync, replace)
        try:
            if self._p.dirty.get(os.stat(a).st_ino):
                self._p.unsynced.append(os.path.basename(str(b)))
        except OSError:
            pass
        self._p.hit("replace")
        return os.replace(a, b)

    def open(self, *a, **k):
        self._p.hit("diropen")
        return os.open(*a, **k)

    def close(self, fd):
        self._p.hit("dirclose")
        return os.close(fd)

    _PURE = {"fspath", "getpid", "getppid", "strerror", "urandom", "getenv", "getcwd", "cpu_count", "stat", "lstat", "fstat", "listdir", "scandir", "umask", "getuid", "getgid",
             "unlink", "remove", "fsencode", "fsdecode", "get_terminal_size", "times", "walk"}

    def __getattr__(self, k):
        v = getattr(os, k)
        # any other os-level call the writer makes is an I/O step too (a fault point): e.g. a space reservation added later
        if callable(v) and not isinstance(v, type) and not k.startswith("_") and k not in self._PURE and k[0].islower():
            def call(*a, _k=k, _v=v, **kw):
                self._p.hit("os." + _k)
                return _v(*a, **kw)
            return call
        return v


class TempProxy:
    def __init__(self, plan):
        self._p = plan

    def NamedTemporaryFile(self, *a, **k):
        import tempfile
        self._p.hit("mktemp")
        return tempfile.NamedTemporaryFile(*a, **k)

    def __getattr__(self, k):
        import tempfile
        return getattr(tempfile, k)


class TimeProxy:
    def __init__(self):
        self.slept = 0.0

    def sleep(self, s):
        self.slept += s

    def __getattr__(self, k):
        return getattr(time, k)


def instrumented(plan):
    import clematis.io.atomic as A
    import contextlib

    real_open = open

    def open_proxy(path, mode="r", *a, **k):
        plan.hit("open_tmp" if "w" in mode else "open_final")
        return FileProxy(real_open(path, mode, *a, **k), plan, "f")

    st = contextlib.ExitStack()
    st.enter_context(patched(A, "os", OsProxy(plan)))
    st.enter_context(patched(A, "tempfile", TempProxy(plan)))
    st.enter_context(patched(A, "time", TimeProxy()))
    st.enter_context(patched(A, "open", open_proxy))
    return st


# ------------------------------------------------------------------------------ callers
def content(size, ch):
    return (ch.encode() * 7 + b"\n") * (size // 8) + ch.encode() * (size % 8)


def run_caller(caller, d, size, ch):
    """Performs the write; returns list of destination paths (first = main destination)."""
    import clematis.io.atomic as A
    import clematis.engine.snapshot as S

    data = content(size, ch)
    if caller == "bytes":
        A.atomic_write_bytes(os.path.join(d, "out.bin"), data)
    elif caller == "text":
        A.atomic_write_text(Path(d) / "out.txt", data.decode())
    elif caller == "json":
        A.atomic_write_json(os.path.join(d, "out.json"), {"k": data.decode(), "n": size})
    elif caller == "snapshot":
        cfg = to_ad({"t4": {"snapshot_dir": d, "weight_min": -1.0, "weight_max": 1.0}})
        ctx = NS(turn_id=1, agent_id="A", cfg=cfg, config=cfg)
        st = {"graph": {"nodes": {}, "edges": {"a→b": {"src": "a", "dst": "b", "weight": 0.5, "rel": ch * (size // 4 + 1)}}}, "version_etag": "1"}
        S.write_snapshot(ctx, st, ch, 0, [])
    elif caller == "lines":
        S._write_lines(os.path.join(d, "snapshot-e1.full.json"), {"schema": "snapshot:v1", "mode": "full", "etag_to": ch}, json.dumps({"p": data.decode()}), codec="none", level=0)
    elif caller == "rewrite":
        from clematis.io.log import rewrite_jsonl
        os.environ["CLEMATIS_LOG_DIR"] = d
        rewrite_jsonl("t1.jsonl", [{"i": i, "b": ch * 10} for i in range(max(1, size // 24))])
    elif caller == "rewrite-extend":
        # compaction of a log that grew: the previous content is a byte prefix of the new one
        from clematis.io.log import rewrite_jsonl
        os.environ["CLEMATIS_LOG_DIR"] = d
        rewrite_jsonl("t1.jsonl", [{"i": i, "b": "x" * 10} for i in range(max(1, size // 24) + (40 if ch == "n" else 0))])


DESTS = {"bytes": ["out.bin"], "text": ["out.txt"], "json": ["out.json"], "snapshot": ["state_A.json", "state_A.json.meta"],
         "lines": ["snapshot-e1.full.json", "snapshot-e1.full.json.meta"], "rewrite": ["t1.jsonl"], "rewrite-extend": ["t1.jsonl"]}


def snapshot_dir(d):
    return {n: sha(open(os.path.join(d, n), "rb").read()) for n in sorted(os.listdir(d)) if os.path.isfile(os.path.join(d, n))}


def reference(caller, size, old):
    """sha of old / new content per destination from unfaulted runs in scratch directories."""
    os.environ["SOURCE_DATE_EPOCH"] = "1700000000"
    out = {}
    with tmpdir("c08r_") as d:
        if old:
            run_caller(caller, d, size, "o")
        out["old"] = snapshot_dir(d)
        run_caller(caller, d, size + 3, "n")
        out["new"] = snapshot_dir(d)
    return out


def inproc_case(caller, size, old, at, kind, err, times, ref, sess: Session, steps_hint=None):
    import clematis.engine.snapshot as S
    import clematis.scripts.rotate_logs as R

    os.environ["SOURCE_DATE_EPOCH"] = "1700000000"
    case = {"caller": caller, "size": size, "old": old, "at": at, "kind": kind, "errno": err, "times": times}
    with tmpdir("c08_") as d:
        if old:
            run_caller(caller, d, size, "o")
        before = snapshot_dir(d)
        ino_before = {n: os.stat(os.path.join(d, n)).st_ino for n in before}
        plan = Plan(at, kind, ERRNOS.get(err) if err else None, times)
        outcome = "ok"
        old_env = os.environ.get("CLEMATIS_LOG_DIR")
        try:
            with instrumented(plan):
                run_caller(caller, d, size + 3, "n")
        except Kill:
            outcome = "killed"
        except OSError as ex:
            outcome = "raised"
        except Exception as ex:
            outcome = "raised:" + type(ex).__name__
        finally:
            if old_env is None:
                os.environ.pop("CLEMATIS_LOG_DIR", None)
            else:
                os.environ["CLEMATIS_LOG_DIR"] = old_env
        after = snapshot_dir(d)
        # an atomic replacement puts a NEW file under the name: content changed with the inode kept = the destination
        # was modified in place (the temp file and the old destination exist at the same time, so their inodes differ)
        for n_ in DESTS[caller][:1]:
            if n_ in before and n_ in after and before[n_] != after[n_]:
                sess.count("replacements_with_inode_checked")
                if os.stat(os.path.join(d, n_)).st_ino == ino_before[n_]:
                    sess.violation("destination-modified-in-place:content-changed-inode-kept", case, {"dest": n_, "outcome": outcome})
        sess.evaluations += 1
        sess.count("inprocess_fault_runs")
        if at is not None and plan.fired:
            sess.sample({**case, "step": plan.steps[at - 1] if at <= len(plan.steps) else None, "outcome": outcome, "io_steps": plan.steps})
        if plan.fired:
            sess.count("inprocess_faults_fired")
            sess.count("fault_fired:" + kind)
            sess.nontrivial.add(chash(case))
        if old and plan.probes and not all(plan.probes) and caller in ("bytes", "text", "json", "rewrite", "rewrite-extend"):
            sess.violation("destination-missing-during-replace-retries", case, {"probes": plan.probes[:8], "outcome": outcome})
        for dname, dsha in plan.staged:
            if dname == DESTS[caller][0]:
                sess.count("staged_files_inspected_at_the_rename")
                if dsha != ref["new"].get(dname):
                    sess.violation("staged-file-incomplete-at-the-rename", case, {"dest": dname, "staged_sha": dsha, "outcome": outcome})
                    break
        sess.count("renames_checked_for_fsync_before_rename", len(plan.staged))
        if plan.unsynced:
            sess.violation("staged-file-renamed-before-its-data-was-fsynced", case, {"dest": plan.unsynced[:3], "io_steps": plan.steps[:14], "outcome": outcome})
        dests = DESTS[caller]
        for i, name in enumerate(dests):
            got = after.get(name)
            allowed = {ref["old"].get(name), ref["new"].get(name)}
            if got not in allowed:
                mech = "partial-or-foreign-content-in-destination"
                if kind == "short":
                    mech = "short-write-not-retried:partial-file-renamed-into-place"
                sess.violation(mech, case, {"dest": name, "outcome": outcome, "step": (plan.steps[at - 1] if at and at <= len(plan.steps) else None), "got_sha": got})
            if i == 0 and outcome == "ok" and got != ref["new"].get(name):
                mech = "reported-success-without-new-content"
                if kind == "short":
                    mech = "short-write-not-retried:partial-file-renamed-into-place"
                sess.violation(mech, case, {"dest": name, "step": (plan.steps[at - 1] if at and at <= len(plan.steps) else None)})
        extra = [n for n in after if n not in dests]
        if extra and outcome.startswith("raised"):
            sess.violation("temp-file-left-after-failed-write", case, {"left": extra, "step": (plan.steps[at - 1] if at and at <= len(plan.steps) else None)})
        if extra and outcome == "ok":
            sess.violation("temp-file-left-after-successful-write", case, {"left": extra})
        if extra and outcome == "killed":
            sess.count("leftovers_after_kill")
            picked = S._pick_latest_snapshot_path(d)
            if picked is not None and os.path.basename(picked) not in dests:
                sess.violation("leftover-temp-picked-by-snapshot-discovery", case, {"picked": os.path.basename(picked)})
            globbed = [os.path.basename(p) for p in R.iter_targets(d, "*.jsonl")]
            if any(g not in dests for g in globbed):
                sess.violation("leftover-temp-matched-by-log-glob", case, {"globbed": globbed})
        return plan.steps


def inproc_enumerate(caller, size, old, tier, sess: Session, rng):
    ref = reference(caller, size, old)
    steps = inproc_case(caller, size, old, None, None, None, 1, ref, sess)
    sess.seen("io_step_sequences", (caller, tuple(steps)))
    n = len(steps)
    faults = [("errno", e, 1) for e in ERRNOS] + [("kill", None, 1), ("short", None, 1)] + [("transient", e, t) for e in ("EACCES", "EPERM", "EBUSY") for t in (1, 3, 10 ** 6)]
    for at in range(1, n + 1):
        for kind, err, times in faults:
            if kind == "short" and steps[at - 1] != "write":
                continue
            if kind == "transient" and steps[at - 1] not in ("replace", "chmod", "fsync"):
                continue
            if tier == "quick" and kind == "errno" and err in ("EPERM", "EBUSY", "ENOENT", "EXDEV") and steps[at - 1] not in ("replace",):
                continue
            inproc_case(caller, size, old, at, kind, err, times, ref, sess)
    sess.count("enumerated_step_x_fault_grids")


# ------------------------------------------------------------------------------ content-caused failures
def poison_case(caller, size, old, sess: Session):
    """The write fails because of its *content* (a lone surrogate cannot be encoded), at whatever point the implementation
    encodes: the destination keeps the previous content and no temporary file stays behind."""
    import clematis.io.atomic as A

    bad = "ok " * (size // 3) + "\ud83d" + " tail"
    case = {"caller": caller, "size": size, "old": old, "kind": "unencodable-content"}
    with tmpdir("c08p_") as d:
        old_env = os.environ.get("CLEMATIS_LOG_DIR")
        os.environ["CLEMATIS_LOG_DIR"] = d
        name = {"text": "out.txt", "json": "out.json", "rewrite": "t1.jsonl"}[caller]
        dest = os.path.join(d, name)
        if old:
            with open(dest, "wb") as f:
                f.write(b'{"previous": "content"}\n')
        before = snapshot_dir(d)
        outcome = "ok"
        try:
            if caller == "text":
                A.atomic_write_text(dest, bad)
            elif caller == "json":
                A.atomic_write_json(dest, {"k": bad})
            else:
                from clematis.io.log import rewrite_jsonl
                rewrite_jsonl(name, [{"i": 0, "b": "fine"}, {"i": 1, "b": bad}])
        except Exception as ex:
            outcome = "raised:" + type(ex).__name__
        finally:
            if old_env is None:
                os.environ.pop("CLEMATIS_LOG_DIR", None)
            else:
                os.environ["CLEMATIS_LOG_DIR"] = old_env
        after = snapshot_dir(d)
        sess.evaluations += 1
        sess.count("content_failure_runs")
        sess.seen("content_failure_outcomes", (caller, outcome))
        if outcome != "ok":
            sess.nontrivial.add(chash(case))
            extra = [n for n in after if n != name]
            if extra:
                sess.violation("temp-file-left-after-failed-write", case, {"left": extra, "outcome": outcome})
            if after.get(name) != before.get(name):
                sess.violation("partial-or-foreign-content-in-destination", case, {"outcome": outcome, "dest_before": before.get(name), "dest_after": after.get(name)})
        else:
            if [n for n in after if n != name]:
                sess.violation("temp-file-left-after-successful-write", case, {"left": [n for n in after if n != name]})


# ------------------------------------------------------------------------------ strace level
SYSC = ["openat", "write", "fsync", "fchmod", "chmod", "rename", "renameat", "renameat2", "unlink", "unlinkat"]


def strace_available():
    return shutil.which("strace") is not None


def strace_run(caller, dest, size, ch, inject=None, timeout=120):
    from vlib import bootstrap

    trace = dest + ".strace"
    cmd = ["strace", "-f", "-qq", "-o", trace, "-e", "trace=" + ",".join(SYSC)]
    if inject:
        cmd += ["-e", "inject=" + inject]
    cmd += [bootstrap.PY, "-m", "vlib.atomworker", caller, dest, str(size), ch]
    p = subprocess.run(cmd, capture_output=True, env=bootstrap.child_env(SOURCE_DATE_EPOCH="1700000000"), cwd=bootstrap.VERIF, timeout=timeout)
    lines = open(trace, errors="replace").read().splitlines() if os.path.exists(trace) else []
    try:
        os.unlink(trace)
    except OSError:
        pass
    return p.returncode, p.stdout.decode("utf-8", "replace"), p.stderr.decode("utf-8", "replace"), lines


def strace_unsynced_renames(lines):
    """From a system-call trace: the renames whose source file was written (through the descriptor it was last opened with)
    after that descriptor's last fsync.  Returns (renames seen, [(src, dst), ...] offending)."""
    import re

    fd_path, dirty = {}, {}
    seen, bad = 0, []
    for ln in lines:
        parts = ln.split(None, 1)
        body = parts[1] if len(parts) > 1 and parts[0].isdigit() else ln
        m = re.match(r'openat\([^,]+, "((?:[^"\\]|\\.)*)", ([A-Z_|0-9a-z]+)[^)]*\)\s*=\s*(\d+)', body)
        if m:
            fd_path[m.group(3)] = m.group(1)
            if "O_TRUNC" in m.group(2) or "O_CREAT" in m.group(2):
                dirty[m.group(1)] = dirty.get(m.group(1), False)
            continue
        m = re.match(r'write\((\d+),.*\)\s*=\s*(\d+)', body)
        if m:
            pth = fd_path.get(m.group(1))
            if pth is not None and int(m.group(2)) > 0:
                dirty[pth] = True
            continue
        m = re.match(r'fsync\((\d+)\)\s*=\s*0', body)
        if m:
            pth = fd_path.get(m.group(1))
            if pth is not None:
                dirty[pth] = False
            continue
        m = re.match(r'rename(?:at2?)?\((?:[^,"]+, )?"((?:[^"\\]|\\.)*)", (?:[^,"]+, )?"((?:[^"\\]|\\.)*)"[^)]*\)\s*=\s*0', body)
        if m:
            seen += 1
            if dirty.get(m.group(1)):
                bad.append((os.path.basename(m.group(1)), os.path.basename(m.group(2))))
            dirty[m.group(2)] = dirty.pop(m.group(1), False)
    return seen, bad


def strace_cases(caller, size, tier, sess: Session, rng):
    fname = {"bytes": "out.bin", "text": "out.txt", "json": "out.json", "rewrite": "t1.jsonl", "rewrite-extend": "t1.jsonl"}[caller]
    with tmpdir("c08s_") as d0:
        # reference contents
        rd = os.path.join(d0, "ref")
        os.makedirs(rd)
        rc, out, err, lines = strace_run(caller, os.path.join(rd, fname), size, "o")
        if rc != 0 or "@@MARK@@" not in err:
            sess.assume("strace could not run the writer in this sandbox; system-call level part skipped")
            sess.count("strace_unavailable")
            return
        old_sha = sha(open(os.path.join(rd, fname), "rb").read())
        rc, out, err, lines = strace_run(caller, os.path.join(rd, fname), size + 3, "n")
        new_sha = sha(open(os.path.join(rd, fname), "rb").read())
        # the documented order at system-call level: the staged file's data is fsynced before it is renamed into place
        n_ren, unsynced = strace_unsynced_renames(lines)
        sess.count("strace_renames_checked_for_fsync_before_rename", n_ren)
        if unsynced:
            sess.violation("staged-file-renamed-before-its-data-was-fsynced", {"caller": caller, "size": size, "level": "syscall"}, {"renames": unsynced[:3]})
        # index the syscalls after the marker
        seen_mark = False
        counts_before = {}
        after = []
        for ln in lines:
            parts = ln.split(None, 1)
            body = parts[1] if len(parts) > 1 and parts[0].isdigit() else ln
            name = body.split("(", 1)[0].strip()
            if name not in SYSC:
                continue
            if name == "write" and "@@MARK@@" in body:
                seen_mark = True
                counts_before[name] = counts_before.get(name, 0) + 1
                continue
            if not seen_mark:
                counts_before[name] = counts_before.get(name, 0) + 1
            else:
                if name == "write" and ("@@DONE@@" in body or "@@RAISED@@" in body):
                    break
                after.append(name)
        if not seen_mark or not after:
            sess.inconclusive_because("strace trace had no marker / no system calls after the marker")
            return
        sess.seen("strace_syscall_sequences", (caller, tuple(after)))
        occ = {}
        plans = []
        for name in after:
            occ[name] = occ.get(name, 0) + 1
            when = counts_before.get(name, 0) + occ[name]
            for e in (["EIO", "ENOSPC", "EACCES"] if tier == "quick" else ["EIO", "ENOSPC", "EACCES", "EPERM", "EBUSY"]):
                plans.append((name, when, f"{name}:error={e}:when={when}", "errno"))
            plans.append((name, when, f"{name}:signal=KILL:when={when}", "kill"))
            # no retval= injection for write: strace then *skips* the system call and only fakes the count, i.e. it
            # models a kernel that lies about bytes written, not a short write; short writes are injected in-process
        if tier == "quick":
            rng.shuffle(plans)
            keep = [p for p in plans if p[3] in ("kill", "short")] + [p for p in plans if p[3] == "errno"][:10]
            plans = keep[:22]
        for name, when, inj, kind in plans:
            d = os.path.join(d0, f"run{len(os.listdir(d0))}")
            os.makedirs(d)
            dest = os.path.join(d, fname)
            # old content via an unfaulted in-process write
            import clematis.io.atomic as A
            shutil.copy(os.path.join(rd, fname), dest)  # new content from reference is "n"; rewrite old first
            rc0, _, _, _ = strace_run(caller, dest, size, "o")
            rc, out, err, _ = strace_run(caller, dest, size + 3, "n", inject=inj)
            case = {"caller": caller, "size": size, "inject": inj, "level": "syscall"}
            sess.evaluations += 1
            sess.count("strace_fault_runs")
            sess.count("strace_fault:" + kind)
            got = sha(open(dest, "rb").read()) if os.path.exists(dest) else None
            outcome = "ok" if rc == 0 else ("raised" if rc == 3 else ("killed" if rc < 0 or rc == 137 else f"rc{rc}"))
            if outcome != "ok":
                sess.nontrivial.add(chash(case))
            if got not in (old_sha, new_sha):
                mech = "partial-or-foreign-content-in-destination"
                if kind == "short":
                    mech = "short-write-not-retried:partial-file-renamed-into-place"
                sess.violation(mech, case, {"outcome": outcome, "got": got, "old": old_sha, "new": new_sha})
            if outcome == "ok" and got != new_sha:
                mech = "reported-success-without-new-content"
                if kind == "short":
                    mech = "short-write-not-retried:partial-file-renamed-into-place"
                sess.violation(mech, case, {"got": got})
            left = [n for n in os.listdir(d) if n != fname]
            if left and outcome == "raised":
                sess.violation("temp-file-left-after-failed-write", case, {"left": left, "stdout": out[-100:]})
            if left and outcome == "killed":
                sess.count("leftovers_after_kill")
                import clematis.engine.snapshot as S
                picked = S._pick_latest_snapshot_path(d)
                if picked is not None and os.path.basename(picked) != fname:
                    sess.violation("leftover-temp-picked-by-snapshot-discovery", case, {"picked": os.path.basename(picked)})
            shutil.rmtree(d, ignore_errors=True)


# ------------------------------------------------------------------------------ readers
def readers_case(n_replacements, sess: Session, seed):
    import clematis.io.atomic as A

    with tmpdir("c08c_") as d:
        dest = os.path.join(d, "shared.bin")
        a, b = content(50_000, "a"), content(120_001, "b")
        A.atomic_write_bytes(dest, a)
        ok = {sha(a): "a", sha(b): "b"}
        stop = threading.Event()
        bad = []
        reads = [0]
        seen_kinds = set()

        def reader():
            while not stop.is_set():
                try:
                    with open(dest, "rb") as f:
                        data = f.read()
                except FileNotFoundError:
                    bad.append("missing")
                    return
                reads[0] += 1
                k = ok.get(sha(data))
                if k is None:
                    bad.append(("partial", len(data)))
                    return
                seen_kinds.add(k)

        ths = [threading.Thread(target=reader) for _ in range(4)]
        procs = []
        from vlib import bootstrap
        code = ("import sys,hashlib,time\nok={%r,%r}\nn=0\nend=time.time()+%f\n"
                "while time.time()<end:\n"
                "    try:\n        data=open(%r,'rb').read()\n    except FileNotFoundError:\n        print('BAD missing'); sys.exit(1)\n"
                "    n+=1\n    if hashlib.sha256(data).hexdigest()[:16] not in ok:\n        print('BAD partial',len(data)); sys.exit(1)\nprint('OK',n)\n") % (sha(a), sha(b), 2.0 if n_replacements < 1000 else 8.0, dest)
        for _ in range(2):
            procs.append(subprocess.Popen([bootstrap.PY, "-c", code], stdout=subprocess.PIPE, stderr=subprocess.PIPE))
        for t in ths:
            t.start()
        for i in range(n_replacements):
            A.atomic_write_bytes(dest, b if i % 2 == 0 else a)
        stop.set()
        for t in ths:
            t.join(30)
        preads = 0
        for p in procs:
            out, _ = p.communicate(timeout=60)
            txt = out.decode()
            if "BAD" in txt:
                bad.append(txt.strip())
            elif txt.startswith("OK"):
                preads += int(txt.split()[1])
        sess.evaluations += 1
        sess.count("concurrent_reader_runs")
        sess.count("concurrent_reads_classified", reads[0] + preads)
        if len(seen_kinds) == 2:
            sess.nontrivial.add(chash(("readers", seed)))
        if bad:
            sess.violation("reader-observed-partial-or-missing-file", {"replacements": n_replacements}, bad[:3])
        left = [n for n in os.listdir(d) if n != "shared.bin"]
        if left:
            sess.violation("temp-file-left-after-successful-write", {"replacements": n_replacements}, left)


# ------------------------------------------------------------------------------ driver
def _work(args):
    what, tier, seed, payload = args
    from vlib import bootstrap

    bootstrap.init()
    sess = Session.worker(PID, tier, seed)
    rng = random.Random(f"C08/{what}/{seed}/{payload}")
    try:
        if what == "inproc":
            caller, size, old = payload
            inproc_enumerate(caller, size, old, tier, sess, rng)
        elif what == "strace":
            caller, size = payload
            if strace_available():
                strace_cases(caller, size, tier, sess, rng)
            else:
                sess.assume("strace not installed: system-call level part skipped")
        elif what == "readers":
            readers_case(payload, sess, seed)
        elif what == "poison":
            for caller in ("text", "json", "rewrite"):
                for size in ((0, 30, 300000) if tier == "quick" else (0, 1, 30, 70000, 300000, 1048576)):
                    for old in (True, False):
                        poison_case(caller, size, old, sess)
    except Exception as ex:
        import traceback
        sess.inconclusive_because(f"harness error {type(ex).__name__}: {ex} @ {traceback.format_exc()[-600:]}")
    return sess.export()


def main(tier: str, seed: int):
    sess = Session(PID, tier, seed, level="fault_enumeration", rule=RULE)
    sess.assume("crash points are I/O call boundaries (Python-level calls in clematis.io.atomic, and system calls under strace); the loss of data by a power failure is not observable, its precondition is: a staged file renamed into place while it carries writes younger than its last fsync")
    sess.assume("the sidecar of a snapshot is best-effort by design: a normally returning write_snapshot must leave the new body; the sidecar may be old or new")
    q = tier == "quick"
    jobs = []
    sizes = [0, 10, 70000] if q else [0, 1, 4096, 70000, 1048576]
    for caller in ["bytes", "text", "json", "snapshot", "lines", "rewrite", "rewrite-extend"]:
        for size in (sizes if caller in ("bytes", "snapshot") or not q else [10]):
            for old in (True, False):
                if q and not old and caller not in ("bytes", "snapshot"):
                    continue
                jobs.append(("inproc", tier, seed, (caller, size, old)))
    for caller in (["bytes", "rewrite", "rewrite-extend"] if q else ["bytes", "text", "json", "rewrite", "rewrite-extend"]):
        for size in ([70000] if q else [10, 70000, 300000]):
            jobs.append(("strace", tier, seed, (caller, size)))
    jobs += [("readers", tier, seed, 300 if q else 20000)] * (2 if q else 4)
    jobs.append(("poison", tier, seed, 0))
    for ex in par.pmap(_work, jobs):
        sess.merge(ex)
    sess.exhaustive = True
    sess.extra["exhaustive_scope"] = "the (I/O step index x fault) grid of each enumerated caller/size/old combination; strace plans are sampled in the quick tier"
    sess.require("inprocess_fault_runs", 300)
    sess.require("inprocess_faults_fired", 200)
    sess.require("fault_fired:kill", 30)
    sess.require("fault_fired:short", 5)
    sess.require("concurrent_reads_classified", 1000)
    sess.require("content_failure_runs", 12)
    sess.require("replacements_with_inode_checked", 50)
    sess.require("staged_files_inspected_at_the_rename", 200)
    if strace_available():
        sess.require("strace_fault_runs", 20)
    sess.finish()


def replay(body, tier, seed):
    sess = Session(PID, tier, seed, rule=RULE, level="fault_enumeration")
    sess.replay_mode = True
    case = unjson(body["case"])
    rng = random.Random(0)
    if case.get("level") == "syscall":
        strace_cases(case["caller"], case["size"], "thorough", sess, rng)
    elif case.get("kind") == "unencodable-content":
        poison_case(case["caller"], case["size"], case["old"], sess)
    elif "caller" in case:
        ref = reference(case["caller"], case["size"], case["old"])
        inproc_case(case["caller"], case["size"], case["old"], case["at"], case["kind"], case.get("errno"), case.get("times", 1), ref, sess)
    else:
        readers_case(case.get("replacements", 300), sess, seed)
    return sess.finish(exit_process=False)
