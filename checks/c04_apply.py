"""C04 - Apply commits exactly the approved deltas, once, with version discipline.

Monitors on real turns (planner replaced through the orchestrator's t3_deliberate hook so that T4/apply
carry data), per turn of a generated history:
  * a recording store double (all-or-nothing, scripted failures) logs every apply_deltas call; T4's
    approved list is captured by a call-through wrapper on core.t4_filter.  Expected: one batch call with
    exactly the approved deltas (object identity, canonical order); only if that call raised, one call per
    delta in the same order; no delta inside two successful calls;
  * state.version_etag advances by exactly one on a committed turn (also when every store call fails);
  * a CacheManager pre-seeded with sentinels: configured namespaces emptied iff cache_bust_mode=on-apply,
    other namespaces untouched;
  * apply.write_snapshot wrapped (call-through): called iff turn % n == 0, file written accordingly;
  * no store exception escapes run_turn;
  * kill switch off: no store call, version / snapshot directory unchanged, no t4/apply record.
"""
from __future__ import annotations

import copy
import os
import random

from vlib import par
from vlib.session import Session, unjson, chash

PID = "C04"
RULE = ("one evaluation = one turn of a generated history (5-30 turns) on the real orchestrator with a recording, fault-scripted "
        "store; non-trivial = the turn committed >= 1 approved delta, hit a scripted store failure, or ran with the kill switch off")
EXC = {"KeyError": KeyError, "RuntimeError": RuntimeError, "OSError": OSError, "AssertionError": AssertionError, "ValueError": ValueError, "Custom": None,
       "TypeError": TypeError, "AttributeError": AttributeError, "ZeroDivisionError": ZeroDivisionError, "MemoryError": MemoryError}


class CustomStoreError(Exception):
    pass


def gen_history(rng, long=False):
    n_every = rng.choice([1, 1, 2, 3, 5])
    bust = rng.choice(["on-apply", "none"])
    namespaces = rng.choice([["t2:semantic"], []])
    cfg = {"t4": {"snapshot_every_n_turns": n_every, "cache_bust_mode": bust, "cache": {"enabled": True, "namespaces": namespaces, "max_entries": 64, "ttl_sec": 600},
                  "delta_norm_cap_l2": rng.choice([1.5, 100.0]), "novelty_cap_per_node": rng.choice([0.3, 1.0]), "churn_cap_edges": rng.choice([0, 2, 64, 64]),
                  # the weight range bounds stored weights, not the approved steps (a step may exceed it)
                  **rng.choice([{}, {}, {"weight_min": -0.2, "weight_max": 0.2}, {"weight_min": 0.0, "weight_max": 0.25}, {"weight_min": -1.0, "weight_max": 0.1}])}}
    if rng.random() < 0.3:
        cfg["t4"]["cooldowns"] = {"EditGraph": rng.choice([0, 2])}
    # several namespaces (outside the validator's one-name enumeration; set on the live config after validation): some that
    # hold entries, some that were never created in the manager
    raw_ns = rng.choice([None, None, ["never:created", "t2:semantic"], ["t2:semantic", "x:ns"], ["x:ns", "never:created", "t2:semantic"], ["x:ns"], ["t2:semantic", "t2:semantic"]])
    turns = []
    tid = rng.choice([0, 1, 5])
    for i in range(rng.randint(5, 30 if long else 12)):
        nd = rng.choice([0, 1, 2, 3, 6, 12, 12, 40, 64])
        targets = [f"n:{rng.choice('abcdefgh')}" for _ in range(nd)] if nd <= 12 else [f"n:t{j:02d}" for j in rng.sample(range(80), nd)]
        if nd and rng.random() < 0.3:
            # ids that are prefixes of one another: the canonical '<kind>:<id>:<attr>' string order differs from the order of
            # the (kind, id, attr) tuples
            targets = [rng.choice(["n:1", "n:10", "n:1.", "n:1/x", "n:1 ", "n:100", "n:1+"]) for _ in range(nd)]
        deltas = [["node" if rng.random() < 0.7 else "edge", t, "weight", rng.choice([0.1, -0.2, 0.3, 0.05, 1.0, -1.0, 0.0]), rng.choice([0, 1, None])] for t in targets]
        fault = rng.choice(["none", "none", "batch", "batch+some-singles", "all", "second-call"])
        exc = rng.choice(list(EXC))
        fail_idx = sorted(rng.sample(range(12), rng.randint(1, 4)))
        t_id = tid
        if rng.random() < 0.1:
            t_id = rng.choice(["x", "t-7", "3"])
        turns.append({"turn_id": t_id, "agent": rng.choice(["A", "B"]), "text": f"hello world {i}", "deltas": deltas, "fault": fault, "exc": exc,
                      "fail_idx": fail_idx, "t4_enabled": rng.random() < 0.8, "cache_enabled": rng.random() < 0.75, "store_kind": rng.choice(["world"] * 7 + ["world-falsy", "no-apply", "absent"]),
                      # the wording of the store's report (a call that returns normally has succeeded, whatever it returns)
                      "store_reply": rng.choice([None] * 6 + ["empty", "none", "clamped-only", "int"]),
                      # the host moves the state version between turns (restored an older snapshot, jumped ahead)
                      "host_version": rng.choice([None] * 8 + ["rewind-2", "rewind-to-0", "ahead-100"])})
        tid = tid + 1 if isinstance(tid, int) else 1
    return {"cfg": cfg, "turns": turns, "raw_namespaces": raw_ns}


def check_history(case, sess: Session):
    import clematis.engine.orchestrator.core as core
    import clematis.engine.apply as applym
    from clematis.engine.cache import CacheManager
    from vlib.turn import TurnEnv
    from vlib.harness import patched
    from vlib.world import build_world_store
    from vlib import bootstrap

    bootstrap.reset_globals()
    world = {"graphs": {"g0": {"nodes": [["n0", "hello", None], ["n1", "world", None]], "edges": [["e0", "n0", "n1", 0.8, "supports"]]}}, "eps": []}
    try:
        env = TurnEnv(case["cfg"], world)
    except Exception as ex:
        sess.count("cfg_rejected_by_validator")
        return
    with env:
        state = env.state
        real_store = state["store"]
        cm = CacheManager(max_entries=64, ttl_sec=600)
        state["_cache_mgr"] = cm
        n_every = int(env.cfg["t4"]["snapshot_every_n_turns"])
        bust = env.cfg["t4"]["cache_bust_mode"]
        if case.get("raw_namespaces"):
            env.cfg["t4"]["cache"]["namespaces"] = list(case["raw_namespaces"])
        namespaces = list(env.cfg["t4"]["cache"]["namespaces"])
        for ti, t in enumerate(case["turns"]):
            tcase = {"cfg": case["cfg"], "turns": case["turns"][:ti + 1], "raw_namespaces": case.get("raw_namespaces")}
            env.cfg["t4"]["enabled"] = bool(t["t4_enabled"])
            # t4.cache.enabled only decides whether the orchestrator creates a manager; a manager that is already on the
            # state is still busted on apply when the flag is switched off in the middle of a history
            env.cfg["t4"]["cache"]["enabled"] = bool(t.get("cache_enabled", True))
            # store for this turn
            state["active_graphs"] = ["g0"]
            if t["store_kind"] in ("world", "world-falsy"):
                state["store"] = real_store
                # a store object may be "empty" in the truth-value sense (it defines __len__) and is a store all the same
                base_cls = getattr(real_store, "_c04_base_cls", type(real_store))
                real_store._c04_base_cls = base_cls
                if t["store_kind"] == "world-falsy":
                    real_store.__class__ = type("FalsyStore", (base_cls,), {"__len__": lambda self_: 0})
                    sess.count("turns_with_a_falsy_store_object")
                else:
                    real_store.__class__ = base_cls
            elif t["store_kind"] == "no-apply":
                class _ReadOnlyStore:  # a graph store without a batch/apply API
                    def __init__(s_, inner):
                        s_._i = inner
                    def get_graph(s_, gid):
                        return s_._i.get_graph(gid)
                    def csr(s_, gid):
                        return s_._i.csr(gid)
                    def version_etag(s_, gid):
                        return s_._i.version_etag(gid)
                state["store"] = _ReadOnlyStore(real_store)
            else:
                state.pop("store", None)
                state["active_graphs"] = []
            st = state.get("store")
            excs = CustomStoreError if t["exc"] == "Custom" else EXC[t["exc"]]
            if st is real_store:
                real_store.calls.clear()
                real_store.script = []
                real_store.fail_all = None
                real_store.applied_count.clear()
                real_store.reply = t.get("store_reply")
                if t.get("store_reply"):
                    sess.count("turns_with_an_unusual_store_report")
                if t["fault"] == "batch":
                    real_store.script = [excs]
                elif t["fault"] == "batch+some-singles":
                    real_store.script = [excs] + [(excs if i in t["fail_idx"] else None) for i in range(12)]
                elif t["fault"] == "all":
                    real_store.fail_all = excs
                elif t["fault"] == "second-call":
                    real_store.script = [None, excs]  # unreachable unless the hand-off is split into several calls
            # sentinels
            for ns in ("t2:semantic", "other:ns", "x:ns"):
                cm.set(ns, ("sentinel", ti), "v")
            size_other_before = cm._ns["other:ns"].size()
            if t.get("host_version"):
                try:
                    cur_ = int(state.get("version_etag"))
                    state["version_etag"] = str({"rewind-2": max(0, cur_ - 2), "rewind-to-0": 0, "ahead-100": cur_ + 100}[t["host_version"]])
                    sess.count("turns_after_the_host_moved_the_version")
                except Exception:
                    pass
            ver_before = state.get("version_etag")
            w_before = dict(real_store.w)
            snaps_before = {n: (os.path.getmtime(os.path.join(env.snap_dir, n)), os.path.getsize(os.path.join(env.snap_dir, n))) for n in os.listdir(env.snap_dir)}
            snaps_bytes_before = env.snaps()
            n_t4 = len(env.records("t4.jsonl"))
            n_ap = len(env.records("apply.jsonl"))
            approved = []
            approved_vals = []
            real_t4 = core.t4_filter

            def t4wrap(*a, **k):
                r = real_t4(*a, **k)
                approved.append(list(r.approved_deltas))
                approved_vals.append([float(d.delta) for d in r.approved_deltas])  # the step values at approval time
                return r

            snap_calls = []
            real_ws = applym.write_snapshot

            def wswrap(ctx, st_, ver, applied=0, deltas=None):
                p = real_ws(ctx, st_, ver, applied, deltas)
                snap_calls.append(p)
                return p

            with patched(core, "t4_filter", t4wrap), patched(applym, "write_snapshot", wswrap):
                r = env.run(t["agent"], t["text"], t["turn_id"], plan={"ops": [{"kind": "Speak"}, {"kind": "EditGraph"}], "deltas": t["deltas"]})
            sess.evaluations += 1
            sess.count("turns_run")
            if ti == 0:
                sess.sample({"t4_cfg": case["cfg"]["t4"], "first_turn": {k: t[k] for k in ("turn_id", "agent", "fault", "exc", "t4_enabled", "store_kind")}, "proposed_deltas": t["deltas"][:4], "turns_in_history": len(case["turns"])})
            if r["exc"]:
                mech = "store-exception-escaped-run_turn" if (st is real_store and t["fault"] != "none") else "turn-raises"
                sess.violation(f"{mech}:{r['exc_type']}", tcase, r["tb"][-400:])
                return
            ver_after = state.get("version_etag")
            new_t4 = len(env.records("t4.jsonl")) - n_t4
            new_ap = len(env.records("apply.jsonl")) - n_ap
            if not t["t4_enabled"]:
                sess.count("kill_switch_off_turns")
                sess.nontrivial.add(chash(("off", ti, case["cfg"]["t4"]["snapshot_every_n_turns"])))
                if st is real_store and real_store.calls:
                    sess.violation("kill-switch-off:store-called", tcase, len(real_store.calls))
                if ver_after != ver_before:
                    sess.violation("kill-switch-off:version-changed", tcase, {"before": ver_before, "after": ver_after})
                if env.snaps() != snaps_bytes_before or snap_calls:
                    sess.violation("kill-switch-off:snapshot-changed", tcase, None)
                if new_t4 or new_ap:
                    sess.violation("kill-switch-off:t4-or-apply-record-emitted", tcase, {"t4": new_t4, "apply": new_ap})
                if real_store.w != w_before:
                    sess.violation("kill-switch-off:store-contents-changed", tcase, None)
                if approved:
                    sess.violation("kill-switch-off:t4-ran", tcase, None)
                continue
            # ---- committed turn
            if len(approved) != 1:
                sess.inconclusive_because("t4_filter wrapper saw %d calls on a committed turn" % len(approved))
                return
            appr = approved[0]
            appr_vals = approved_vals[0]
            if new_t4 != 1 or new_ap != 1:
                sess.violation("committed-turn:record-count", tcase, {"t4": new_t4, "apply": new_ap})
            # version discipline
            try:
                exp_ver = str(int(ver_before) + 1)
            except Exception:
                exp_ver = "1"
            if ver_after != exp_ver:
                mech = "version-not-advanced-by-one"
                if st is real_store and t["fault"] != "none":
                    mech += "(store-failure)"
                sess.violation(mech, tcase, {"before": ver_before, "after": ver_after, "expected": exp_ver})
            ap_rec = env.records("apply.jsonl")[-1] if new_ap else {}
            if ap_rec and ap_rec.get("version_etag") != ver_after:
                sess.violation("apply-record-version", tcase, {"rec": ap_rec.get("version_etag"), "state": ver_after})
            # hand-off discipline
            if st is real_store:
                calls = real_store.calls
                ids = [id(d) for d in appr]
                if not calls:
                    sess.violation("no-batch-call", tcase, None)
                else:
                    if calls[0]["gid"] != "g:surface" or calls[0]["ids"] != ids:
                        sess.violation("batch-call-not-exactly-the-approved-deltas-in-order", tcase, {"n_call": calls[0]["n"], "n_approved": len(appr), "keys": calls[0]["keys"][:4]})
                    elif calls[0]["deltas"] != appr_vals:
                        # same objects, other step values: the hand-off changed what the meta-filter approved
                        sess.violation("batch-call-carries-other-step-values-than-approved", tcase, {"store_got": calls[0]["deltas"][:6], "approved": appr_vals[:6]})
                    keys = [f"{d.target_kind}:{d.target_id}:{d.attr}" for d in appr]  # the documented canonical key is this string
                    if keys != sorted(keys):
                        sess.violation("approved-not-in-canonical-order", tcase, keys[:6])
                    if calls[0]["ok"]:
                        if len(calls) != 1:
                            sess.violation("extra-store-calls-after-successful-batch", tcase, len(calls))
                    else:
                        singles = calls[1:]
                        if [c["ids"] for c in singles] != [[i] for i in ids]:
                            sess.violation("fallback-not-one-call-per-delta-in-order", tcase, {"singles": [c["keys"] for c in singles][:6], "approved": keys[:6]})
                        sess.count("turns_with_batch_failure")
                        sess.nontrivial.add(chash(("fault", t["fault"], t["exc"], len(appr), ti)))
                    per = {}
                    for c in calls:
                        if c["ok"]:
                            for i in c["ids"]:
                                per[i] = per.get(i, 0) + 1
                    if any(v > 1 for v in per.values()):
                        sess.violation("delta-applied-twice", tcase, None)
                    ok_edits = sum(1 for c in calls if c["ok"] for _ in c["ids"])
                if appr:
                    sess.count("turns_with_approved_deltas")
                    sess.nontrivial.add(chash(("commit", len(appr), ti)))
            # cache busting
            t2size = cm._ns["t2:semantic"].size() if "t2:semantic" in cm._ns else 0
            other = cm._ns["other:ns"].size()
            applied_path = st is not None and callable(getattr(st, "apply_deltas", None))
            if other != size_other_before:
                sess.violation("cache:unconfigured-namespace-touched", tcase, {"before": size_other_before, "after": other})
            if applied_path and bust == "on-apply" and "x:ns" in namespaces:
                if cm._ns["x:ns"].size() != 0:
                    sess.violation("cache:configured-namespace-not-emptied", tcase, {"namespace": "x:ns", "size": cm._ns["x:ns"].size(), "configured": namespaces})
                else:
                    sess.count("cache_busts_observed(second namespace)")
            if applied_path and not (bust == "on-apply" and "x:ns" in namespaces) and cm._ns["x:ns"].size() == 0:
                sess.violation("cache:unconfigured-namespace-touched", tcase, {"namespace": "x:ns", "configured": namespaces, "mode": bust})
            if applied_path:
                if bust == "on-apply" and "t2:semantic" in namespaces:
                    if t2size != 0:
                        sess.violation("cache:configured-namespace-not-emptied", tcase, {"size": t2size})
                    else:
                        sess.count("cache_busts_observed")
                else:
                    if t2size == 0:
                        sess.violation("cache:namespace-emptied-while-busting-off", tcase, {"mode": bust, "namespaces": namespaces})
            # snapshot cadence
            try:
                tnum = int(t["turn_id"])
            except Exception:
                tnum = 0
            should = (tnum % max(1, n_every)) == 0
            if should != bool(snap_calls):
                sess.violation("snapshot-cadence", tcase, {"turn": t["turn_id"], "every": n_every, "written": bool(snap_calls)})
            elif should:
                sess.count("snapshots_on_cadence")
                p = snap_calls[0]
                if os.path.basename(p) != f"state_{t['agent']}.json" or not os.path.exists(p):
                    sess.violation("snapshot-path", tcase, p)
                if ap_rec.get("snapshot") != p:
                    sess.violation("apply-record-snapshot-path", tcase, {"rec": ap_rec.get("snapshot"), "written": p})
            else:
                sess.count("snapshots_skipped_off_cadence")
                if env.snaps() != snaps_bytes_before:
                    sess.violation("snapshot-dir-changed-off-cadence", tcase, None)
                if ap_rec.get("snapshot") is not None:
                    sess.violation("apply-record-snapshot-path", tcase, {"rec": ap_rec.get("snapshot"), "written": None})


def _chunk(args):
    tier, seed, i, n = args
    from vlib import bootstrap

    bootstrap.init()
    rng = random.Random(f"C04/{seed}/{i}")
    sess = Session.worker(PID, tier, seed)
    for _ in range(n):
        try:
            check_history(gen_history(rng, long=(tier == "thorough")), sess)
        except Exception as ex:
            import traceback
            sess.inconclusive_because(f"harness error {type(ex).__name__}: {ex} @ {traceback.format_exc()[-500:]}")
    return sess.export()


def main(tier: str, seed: int):
    sess = Session(PID, tier, seed, level="exploration", rule=RULE)
    sess.assume("the store double is all-or-nothing (a scripted failure raises before anything is applied) and returns numeric edit counts; stores that partially apply a failing batch or return non-numeric counts are outside the generated domain")
    sess.assume("ctx carries cfg and config bound to the same validated configuration (the shape under which the T4/apply settings are read)")
    total = 140 if tier == "quick" else 15000
    nchunks = par.NWORK
    per = max(1, total // nchunks)
    for ex in par.pmap(_chunk, [(tier, seed, i, per) for i in range(nchunks)]):
        sess.merge(ex)
    sess.require("turns_run", 300)
    sess.require("turns_with_approved_deltas", 100)
    sess.require("turns_with_batch_failure", 40)
    sess.require("kill_switch_off_turns", 40)
    sess.require("cache_busts_observed", 30)
    sess.require("snapshots_on_cadence", 50)
    sess.require("snapshots_skipped_off_cadence", 30)
    sess.finish()


def replay(body, tier, seed):
    sess = Session(PID, tier, seed, rule=RULE)
    sess.replay_mode = True
    check_history(unjson(body["case"]), sess)
    return sess.finish(exit_process=False)
