"""C15 - Bounded caches never exceed capacity and evict deterministically.

Monitors:
  (1) model-based exploration of every container: breadth-first over the *reachable state graph*
      (every operation of a small alphabet applied from every distinct state, to a bounded depth),
      which covers every operation sequence up to that depth modulo state equivalence; after every
      operation the real object is compared with a list-based reference model (return value, size,
      byte total, key order LRU->MRU, eviction report, stats deltas) and structural invariants are
      walked (queue vs map, bytes = sum of live costs, within caps, ring refcounts = deque multiset);
  (2) long random sequences on the same oracle;
  (3) threads: N threads x put/get through ThreadSafeCache / ThreadSafeBytesCache with unique
      values, sys.monitoring LINE-event yield injection inside the inner cache's methods and a
      1 us switch interval; the recorded call/return history is checked per key (a get returns a
      value that was put before the get returned and was not definitely overwritten before the get
      was called), invariants are walked under the wrapper's own lock at quiescent points;
  (4) merge_caches_deterministic over shuffled worker lists vs a reference merge.
"""
from __future__ import annotations

import copy
import itertools
import random
import sys
import threading
import time

from vlib import par
from vlib.session import Session, unjson, chash

PID = "C15"
RULE = ("one evaluation = one operation applied to a real container from a distinct reachable state (BFS) or in a random "
        "sequence, compared with the reference model + invariant walk; threaded histories and merges count one each; "
        "non-trivial = the operation changed state, evicted or expired something")
KEYS = ["a", "b", "c"]


class Clock:
    def __init__(self):
        self.t = 1000.0

    def __call__(self):
        return self.t


# ============================================================================ models
class _EvictObserver:
    """An eviction observer that fails for some victims: every victim is still reported, once, in eviction order."""

    def __init__(self):
        self.seen = []

    def __call__(self, k, v, c):
        self.seen.append((k, v, c))
        if (len(str(k)) + len(self.seen)) % 2 == 0:
            raise RuntimeError("observer failure")


class MBytes:
    def __init__(s, me, mb):
        s.me, s.mb, s.q = int(me or 0), int(mb or 0), []  # q: [k, v, cost] LRU->MRU
        s.victims = []  # every eviction, in order (what an eviction observer is told)

    def _find(s, k):
        for i, e in enumerate(s.q):
            if e[0] == k:
                return i
        return -1

    def put(s, k, v, c):
        if s.me == 0 and s.mb == 0:
            return (0, 0)
        c = max(0, int(c or 0))
        if s.mb and c > s.mb:
            return (0, 0)
        i = s._find(k)
        if i >= 0:
            s.q.pop(i)
        s.q.append([k, v, c])
        n = b = 0
        while (s.me and len(s.q) > s.me) or (s.mb and sum(e[2] for e in s.q) > s.mb):
            e = s.q.pop(0)
            n += 1
            b += e[2]
            s.victims.append((e[0], e[1], e[2]))
        return (n, b)

    def get(s, k):
        i = s._find(k)
        if i < 0:
            return None
        e = s.q.pop(i)
        s.q.append(e)
        return e[1]

    def contains(s, k):
        return s._find(k) >= 0 and (s.me > 0 or s.mb > 0)

    def clear(s):
        s.q = []

    def view(s):
        return dict(keys=[e[0] for e in s.q], items=[(e[0], e[1]) for e in s.q], n=len(s.q), bytes=sum(e[2] for e in s.q))


class MNS:
    """LRU + TTL namespace (lazy expiry on read)."""

    def __init__(s, mx, ttl, clock):
        s.mx, s.ttl, s.clock, s.q = int(mx), int(ttl), clock, []  # [k, v, ts]

    def _find(s, k):
        for i, e in enumerate(s.q):
            if e[0] == k:
                return i
        return -1

    def _expired(s, e):
        return bool(s.ttl) and (s.clock() - e[2]) > s.ttl

    def get(s, k):
        i = s._find(k)
        if i < 0:
            return (False, None)
        if s._expired(s.q[i]):
            s.q.pop(i)
            return (False, None)
        e = s.q.pop(i)
        s.q.append(e)
        return (True, e[1])

    def set(s, k, v):
        i = s._find(k)
        if i >= 0:
            s.q.pop(i)
        s.q.append([k, v, s.clock()])
        ev = 0
        while len(s.q) > s.mx:
            s.q.pop(0)
            ev += 1
        return ev

    def contains(s, k):
        i = s._find(k)
        if i < 0:
            return False
        if s._expired(s.q[i]):
            s.q.pop(i)
            return False
        return True

    def items(s):
        s.q = [e for e in s.q if not s._expired(e)]
        return [(e[0], e[1]) for e in s.q]

    def invalidate(s):
        n = len(s.q)
        s.q = []
        return n


class MDetLRU:
    def __init__(s, cap, uog, uop):
        s.cap, s.uog, s.uop, s.q = max(0, int(cap)), uog, uop, []

    def _find(s, k):
        for i, e in enumerate(s.q):
            if e[0] == k:
                return i
        return -1

    def get(s, k, default=None):
        if not s.cap:
            return default
        i = s._find(k)
        if i < 0:
            return default
        e = s.q[i]
        if s.uog:
            s.q.pop(i)
            s.q.append(e)
        return e[1]

    def put(s, k, v):
        if not s.cap:
            return None
        i = s._find(k)
        if i >= 0:
            s.q[i][1] = v
            if s.uop:
                e = s.q.pop(i)
                s.q.append(e)
            return None
        s.q.append([k, v])
        ev = None
        while len(s.q) > s.cap:
            e = s.q.pop(0)
            ev = (e[0], e[1])
        return ev

    def pop_lru(s):
        if not s.cap or not s.q:
            return None
        e = s.q.pop(0)
        return (e[0], e[1])

    def items(s):
        return [(e[0], e[1]) for e in s.q] if s.cap else []


class MSet:
    def __init__(s, cap):
        s.cap, s.q = max(0, int(cap)), []

    def add(s, x):
        if not s.cap or x in s.q:
            return False
        s.q.append(x)
        ev = False
        while len(s.q) > s.cap:
            s.q.pop(0)
            ev = True
        return ev

    def contains(s, x):
        return bool(s.cap) and x in s.q


class MRing:
    def __init__(s, k):
        s.k, s.q = max(0, int(k)), []

    def add(s, x):
        if not s.k:
            return
        s.q.append(x)
        s.q = s.q[-s.k:]

    def contains(s, x):
        return bool(s.k) and x in s.q


# ============================================================================ subjects
# A subject = (make() -> (real, model, clock), ops list, apply(real, model, clock, op) -> (r_real, r_model),
#              view(real) / view(model), invariants(real) -> list[str], fingerprint(real, clock))

def subj_lrubytes(me, mb):
    from clematis.engine.util.lru_bytes import LRUBytes

    costs = (0, 1, 2, 4, 5, 6, -1) if mb else (0, 2, -1)  # without a byte cap the cost only feeds the accounting
    ops = [("put", k, v, c) for k in KEYS for v in (0, 1) for c in costs] + \
          [("get", k) for k in KEYS] + [("contains", k) for k in KEYS] + [("clear",)]

    def make():
        obs = _EvictObserver()
        r_ = LRUBytes(me, mb, on_evict=obs)
        r_._verif_seen = obs.seen  # (one list object, also after the explorer deep-copies the cache)
        return r_, MBytes(me, mb), None

    def apply(r, m, clk, op):
        if op[0] == "put":
            return r.put(op[1], op[2], op[3]), m.put(op[1], op[2], op[3])
        if op[0] == "get":
            return r.get(op[1]), m.get(op[1])
        if op[0] == "contains":
            return (op[1] in r), m.contains(op[1])
        r.clear()
        m.clear()
        return None, None

    def view_r(r, clk):
        return dict(keys=list(r.keys()), items=list(r.items()), n=len(r), bytes=r.size_bytes(), told=list(r._verif_seen))

    def view_m(m, clk):
        return dict(m.view(), told=list(m.victims))

    def inv(r):
        out = []
        if len(r._q) != len(r._map) or set(r._q) != set(r._map):
            out.append("queue-vs-map")
        if r._bytes != sum(c for _, c in r._map.values()):
            out.append("bytes-vs-sum-of-costs")
        if r.max_entries and len(r._map) > r.max_entries:
            out.append("over-entry-capacity")
        if r.max_bytes and r._bytes > r.max_bytes:
            out.append("over-byte-capacity")
        if r.max_entries == 0 and r.max_bytes == 0 and r._map:
            out.append("disabled-but-stores")
        return out

    def fp(r, clk):
        return (tuple(r._q), tuple(sorted((k, v, c) for k, (v, c) in r._map.items())), r._bytes)

    return dict(name=f"LRUBytes(me={me},mb={mb})", make=make, ops=ops, apply=apply, view_r=view_r, view_m=view_m, inv=inv, fp=fp)


def _ages(d, clk, ttl):
    return tuple((k, e.value, min(clk.t - e.ts, ttl + 2 if ttl else 0)) for k, e in d.items())


def subj_lrucache(mx, ttl, threadsafe=False):
    from clematis.engine.cache import LRUCache

    ops = [("set", k, v) for k in KEYS for v in (0, 1)] + [("get", k) for k in KEYS] + [("get2", k) for k in KEYS] + \
          [("contains", k) for k in KEYS] + [("items",), ("invalidate",), ("tick", 1), ("tick", max(1, ttl)), ("tick", ttl + 1)] + \
          ([("tick", 1000)] if ttl == 0 else [])  # ttl 0 = no expiry, however far the injected clock moves

    def make():
        clk = Clock()
        # the documented constructor aliases, each given explicitly (an explicit 0 is a setting, not "unset")
        kw = [dict(max_entries=mx, ttl_s=ttl), dict(capacity=mx, ttl=ttl), dict(max_entries=mx, ttl_sec=ttl), dict(capacity=mx, max_entries=777, ttl=ttl, ttl_s=33)][(mx + ttl) % 4]
        return LRUCache(time_fn=clk, **kw), MNS(mx, ttl, clk), clk

    def apply(r, m, clk, op):
        if op[0] == "set":
            before = r.stats["evicted"]
            r.put(op[1], op[2]) if op[2] else r.set(op[1], op[2])
            return r.stats["evicted"] - before, m.set(op[1], op[2])
        if op[0] == "get":
            h0, m0 = r.stats["hits"], r.stats["misses"]
            v = r.get(op[1])
            hit, mv = m.get(op[1])
            return (v, r.stats["hits"] - h0, r.stats["misses"] - m0), (mv if hit else None, int(hit), int(not hit))
        if op[0] == "get2":
            return tuple(r.get2(op[1])), m.get(op[1])
        if op[0] == "contains":
            return (op[1] in r), m.contains(op[1])
        if op[0] == "items":
            return list(r.items()), m.items()
        if op[0] == "invalidate":
            return r.invalidate(), m.invalidate()
        clk.t += op[1]
        return None, None

    def view_r(r, clk):
        return dict(order=[(k, e.value, e.ts) for k, e in r._ns._d.items()], n=len(r), size=r.size())

    def view_m(m, clk):
        return dict(order=[(e[0], e[1], e[2]) for e in m.q], n=len(m.q), size=len(m.q))

    def inv(r):
        out = []
        if len(r._ns._d) > max(0, r._ns._max):
            out.append("over-entry-capacity")
        if r.stats["size"] != len(r._ns._d):
            out.append("stats-size")
        return out

    def fp(r, clk):
        return _ages(r._ns._d, clk, ttl)

    return dict(name=f"LRUCache(max={mx},ttl={ttl})", make=make, ops=ops, apply=apply, view_r=view_r, view_m=view_m, inv=inv, fp=fp)


def subj_manager(mx, ttl):
    from clematis.engine.cache import CacheManager

    NS_ = ["n1", "n2"]
    KS = [("k", 1), ["unhashable", 1]]
    ops = [("set", n, ki, v) for n in NS_ for ki in (0, 1) for v in (0, 1)] + [("get", n, ki) for n in NS_ for ki in (0, 1)] + \
          [("inv", n) for n in NS_ + ["nx"]] + [("invall",), ("tick", 1), ("tick", ttl + 1)]

    def make():
        clk = Clock()
        return CacheManager(max_entries=mx, ttl_sec=ttl, time_fn=clk), {n: MNS(mx, ttl, clk) for n in NS_}, clk

    def apply(r, m, clk, op):
        if op[0] == "set":
            e0 = r.stats["evicted"]
            r.set(op[1], copy.deepcopy(KS[op[2]]), op[3])
            return r.stats["evicted"] - e0, m[op[1]].set(op[2], op[3])
        if op[0] == "get":
            h0, m0 = r.stats["hits"], r.stats["misses"]
            res = tuple(r.get(op[1], copy.deepcopy(KS[op[2]])))
            hit, v = m[op[1]].get(op[2])
            return (res, r.stats["hits"] - h0, r.stats["misses"] - m0), ((hit, v), int(hit), int(not hit))
        if op[0] == "inv":
            return r.invalidate_namespace(op[1]), (m[op[1]].invalidate() if op[1] in m else 0)
        if op[0] == "invall":
            return r.invalidate_all(), sum(x.invalidate() for x in m.values())
        clk.t += op[1]
        return None, None

    def view_r(r, clk):
        return dict(size=r.stats["size"], per={n: [e.value for e in ns._d.values()] for n, ns in sorted(r._ns.items()) if ns._d})

    def view_m(m, clk):
        return dict(size=sum(len(x.q) for x in m.values()), per={n: [e[1] for e in x.q] for n, x in sorted(m.items()) if x.q})

    def inv(r):
        return ["over-entry-capacity"] if any(len(ns._d) > max(0, r._max) for ns in r._ns.values()) else []

    def fp(r, clk):
        return tuple((n, _ages(ns._d, clk, ttl)) for n, ns in sorted(r._ns.items()) if ns._d)

    return dict(name=f"CacheManager(max={mx},ttl={ttl})", make=make, ops=ops, apply=apply, view_r=view_r, view_m=view_m, inv=inv, fp=fp)


def subj_detlru(cap, uog, uop):
    from clematis.engine.util.lru_det import DeterministicLRU

    ops = [("put", k, v) for k in KEYS + ["d"] for v in (0, 1, None)] + [("get", k) for k in KEYS + ["d"]] + \
          [("contains", k) for k in KEYS] + [("pop",), ("clear",)]  # None is a storable value (get takes an explicit default)

    def make():
        return DeterministicLRU(cap, update_on_get=uog, update_on_put=uop), MDetLRU(cap, uog, uop), None

    def apply(r, m, clk, op):
        if op[0] == "put":
            return r.put(op[1], op[2]), m.put(op[1], op[2])
        if op[0] == "get":
            return r.get(op[1], "dflt"), m.get(op[1], "dflt")
        if op[0] == "contains":
            return (op[1] in r, r.contains(op[1])), (m._find(op[1]) >= 0 and bool(m.cap),) * 2
        if op[0] == "pop":
            return r.pop_lru(), m.pop_lru()
        r.clear()
        m.q = []
        return None, None

    def view_r(r, clk):
        return dict(items=list(r.items()), n=len(r))

    def view_m(m, clk):
        return dict(items=m.items(), n=len(m.items()))

    def inv(r):
        out = []
        if len(r._q) != len(r._map) or set(r._q) != set(r._map):
            out.append("queue-vs-map")
        if len(r._map) > r.cap:
            out.append("over-entry-capacity")
        return out

    def fp(r, clk):
        return (tuple(r._q), tuple(sorted(r._map.items())))

    return dict(name=f"DeterministicLRU(cap={cap},uog={uog},uop={uop})", make=make, ops=ops, apply=apply, view_r=view_r, view_m=view_m, inv=inv, fp=fp)


def subj_set(cap, which):
    def make():
        if which == "lru_det":
            from clematis.engine.util.lru_det import DeterministicLRUSet as C
        else:
            from clematis.engine.util.ring import DeterministicLRU as C
        return C(cap), MSet(cap), None

    ops = [("add", k) for k in KEYS + ["d", "e"]] + [("contains", k) for k in KEYS + ["d"]] + [("clear",)]

    def apply(r, m, clk, op):
        if op[0] == "add":
            return r.add(op[1]), m.add(op[1])
        if op[0] == "contains":
            return (op[1] in r, r.contains(op[1])), (m.contains(op[1]),) * 2
        r.clear()
        m.q = []
        return None, None

    def view_r(r, clk):
        return dict(order=list(r._q), n=len(r), size=r.size())

    def view_m(m, clk):
        return dict(order=list(m.q), n=len(m.q), size=len(m.q))

    def inv(r):
        out = []
        if len(r._q) != len(r._set) or set(r._q) != set(r._set):
            out.append("queue-vs-set")
        if len(r._set) > r.cap:
            out.append("over-entry-capacity")
        return out

    def fp(r, clk):
        return tuple(r._q)

    return dict(name=f"LRUSet[{which}](cap={cap})", make=make, ops=ops, apply=apply, view_r=view_r, view_m=view_m, inv=inv, fp=fp)


def subj_ring(k):
    from clematis.engine.util.ring import DedupeRing

    ops = [("add", x) for x in KEYS] + [("contains", x) for x in KEYS] + [("extend", ("a", "a", "b")), ("clear",)]

    def make():
        return DedupeRing(k), MRing(k), None

    def apply(r, m, clk, op):
        if op[0] == "add":
            return r.add(op[1]), m.add(op[1])
        if op[0] == "contains":
            return (op[1] in r), m.contains(op[1])
        if op[0] == "extend":
            r.extend(op[1])
            for x in op[1]:
                m.add(x)
            return None, None
        r.clear()
        m.q = []
        return None, None

    def view_r(r, clk):
        return dict(order=r.tolist(), n=len(r))

    def view_m(m, clk):
        return dict(order=list(m.q), n=len(m.q))

    def inv(r):
        out = []
        if len(r._q) > r.k:
            out.append("over-entry-capacity")
        ref = {}
        for x in r._q:
            ref[x] = ref.get(x, 0) + 1
        if ref != r._ref:
            out.append("refcount-vs-deque")
        return out

    def fp(r, clk):
        return tuple(r._q)

    return dict(name=f"DedupeRing(k={k})", make=make, ops=ops, apply=apply, view_r=view_r, view_m=view_m, inv=inv, fp=fp)


def all_subjects(tier):
    subs = []
    for me in (0, 1, 2, 3):
        for mb in (0, 3, 5):
            subs.append(("lrubytes", (me, mb)))
    for mx in (0, 1, 2, 3):
        for ttl in (0, 1, 2):
            subs.append(("lrucache", (mx, ttl)))
    for mx in (0, 1, 2):
        for ttl in (0, 2):
            subs.append(("manager", (mx, ttl)))
    for cap in (0, 1, 2, 3):
        for uog in (True, False):
            for uop in (True, False):
                subs.append(("detlru", (cap, uog, uop)))
    for cap in (0, 1, 2, 3):
        subs.append(("set", (cap, "lru_det")))
        subs.append(("set", (cap, "ring")))
    for k in (0, 1, 2, 3):
        subs.append(("ring", (k,)))
    return subs


def mk_subject(kind, params):
    return {"lrubytes": subj_lrubytes, "lrucache": subj_lrucache, "manager": subj_manager, "detlru": subj_detlru,
            "set": subj_set, "ring": subj_ring}[kind](*params)


def step(S, r, m, clk, op, sess, path):
    """Apply one op to (real, model); compare; returns False on a violation."""
    v0 = S["view_r"](r, clk)
    try:
        rr, rm = S["apply"](r, m, clk, op)
    except Exception as ex:
        sess.violation("raises:" + type(ex).__name__, {"subject": S["name"], "path": path + [op]}, repr(ex)[:200])
        return False
    ok = True
    rr_n = list(rr) if isinstance(rr, tuple) else rr
    rm_n = list(rm) if isinstance(rm, tuple) else rm
    if _norm(rr_n) != _norm(rm_n):
        sess.violation("model:return-value", {"subject": S["name"], "path": path + [op]}, {"real": rr, "model": rm})
        ok = False
    v1, vm = S["view_r"](r, clk), S["view_m"](m, clk)
    if _norm(v1) != _norm(vm):
        sess.violation("model:state(order/size/bytes)", {"subject": S["name"], "path": path + [op]}, {"real": v1, "model": vm})
        ok = False
    for name in S["inv"](r):
        sess.violation("invariant:" + name, {"subject": S["name"], "path": path + [op]}, v1)
        ok = False
    sess.count("operations_compared")
    if len(path) >= 3:
        sess.sample({"subject": S["name"], "operation_sequence": path + [op]})
    sess.evaluations += 1
    if _norm(v0) != _norm(v1) or (op[0] in ("put", "set") and rr not in (None, 0, (0, 0))):
        sess.count("state_changing_operations")
        sess.nontrivial.add(chash((S["name"], _norm(v0), op)))
    if op[0] in ("put", "set") and rr not in (None, 0, (0, 0)):
        sess.count("evictions_observed")
    return ok


def _norm(o):
    if isinstance(o, (list, tuple)):
        return [_norm(x) for x in o]
    if isinstance(o, dict):
        return {k: _norm(v) for k, v in o.items()}
    return o


def bfs(kind, params, depth, sess):
    S = mk_subject(kind, params)
    r0, m0, c0 = S["make"]()
    seen = {S["fp"](r0, c0)}
    frontier = [(r0, m0, c0, [])]
    states = 1
    for d in range(depth):
        nxt = []
        for (r, m, clk, path) in frontier:
            for op in S["ops"]:
                r2, m2, c2 = copy.deepcopy((r, m, clk))
                if c2 is not None:
                    _rebind_clock(r2, m2, c2)
                ok = step(S, r2, m2, c2, op, sess, path)
                if not ok:
                    continue
                f = S["fp"](r2, c2)
                if f not in seen:
                    seen.add(f)
                    states += 1
                    nxt.append((r2, m2, c2, path + [op]))
        frontier = nxt
        if not frontier:
            sess.count("bfs_fixpoints_reached(all reachable states explored)")
            break
    sess.count("distinct_states_explored", states)
    return states


def _rebind_clock(r, m, clk):
    # deepcopy of the triple keeps object identity between cache(s), model(s) and clock via the memo; nothing to do
    return


def rand_seq(kind, params, n, rng, sess):
    S = mk_subject(kind, params)
    r, m, clk = S["make"]()
    path = []
    for _ in range(n):
        op = rng.choice(S["ops"])
        path.append(op)
        if not step(S, r, m, clk, op, sess, path[-12:-1]):
            return


# ============================================================================ wrapper views
def wrapper_view_case(rng, sess):
    """What a lock wrapper hands out must have been taken under its lock: items() is the content at the time of the call,
    also when the caller looks at it only after other operations went through the wrapper."""
    from clematis.engine.cache import LRUCache, ThreadSafeCache, ThreadSafeBytesCache
    from clematis.engine.util.lru_bytes import LRUBytes

    cap = rng.choice([1, 2, 3])
    kind = rng.choice(["bytes", "lru"])
    wrap = ThreadSafeBytesCache(LRUBytes(max_entries=cap, max_bytes=cap * 4)) if kind == "bytes" else ThreadSafeCache(LRUCache(max_entries=cap, ttl_s=0))

    def put(k, v):
        return wrap.put(k, v, 1) if kind == "bytes" else wrap.put(k, v)

    ops = []
    for j in range(rng.randint(1, cap + 1)):
        ops.append(("put", f"k{j}", j))
        put(f"k{j}", j)
    view = wrap.items()
    at_call = list(wrap.items())  # a second, immediately materialised view of the same content
    later = [("put", f"n{j}", 100 + j) for j in range(rng.randint(1, cap + 1))]
    for _, k, v in later:
        put(k, v)
    try:
        seen_later = list(view)
    except Exception as ex:
        sess.violation("wrapper-view:raises-when-consumed-after-later-operations:" + type(ex).__name__, {"kind": kind, "cap": cap, "before": ops, "after": later}, repr(ex)[:120])
        return
    sess.evaluations += 1
    sess.count("wrapper_views_checked")
    if seen_later != at_call:
        sess.violation("wrapper-view:items-evaluated-outside-the-lock", {"kind": kind, "cap": cap, "before": ops, "after": later},
                       {"at_call": at_call, "consumed_later": seen_later})


def first_use_case(rng, sess):
    """A fresh lock wrapper whose very first operations come from several threads at once (a thread switch offered at every
    statement of the cache module): the wrapped cache is never entered by two threads at the same time.  The monitor is a
    non-blocking guard inside the inner cache's own methods."""
    import inspect
    import threading
    import sys as _sys
    import clematis.engine.cache as cmod
    from clematis.engine.cache import LRUCache, ThreadSafeCache, ThreadSafeBytesCache
    from clematis.engine.util.lru_bytes import LRUBytes
    from vlib.harness import line_yields

    kind = rng.choice(["lru", "bytes"])
    guard = threading.Lock()
    overlaps = []

    def guarded(fn, name):
        def g(*a, **k):
            if not guard.acquire(False):
                overlaps.append(name)
                return fn(*a, **k)
            try:
                # widen the window: give the other threads a chance while we are inside
                import time as _t
                _t.sleep(0)
                return fn(*a, **k)
            finally:
                guard.release()
        return g

    inner = LRUBytes(max_entries=8, max_bytes=64) if kind == "bytes" else LRUCache(max_entries=8, ttl_s=0)
    for name in ("get", "put", "items", "__contains__") if kind == "lru" else ("get", "put", "items"):
        if hasattr(inner, name) and not name.startswith("__"):
            setattr(inner, name, guarded(getattr(inner, name), name))
    wrap = ThreadSafeBytesCache(inner) if kind == "bytes" else ThreadSafeCache(inner)
    nt = rng.choice([2, 3, 4])
    barrier = threading.Barrier(nt)
    errs = []

    def w(i):
        try:
            barrier.wait(10)
            for j in range(3):
                if kind == "bytes":
                    wrap.put((i, j), j, 1)
                else:
                    wrap.put((i, j), j)
                wrap.get((i, j))
        except Exception as ex:
            errs.append(f"{type(ex).__name__}: {ex}"[:120])

    codes = [f.__code__ for f in vars(cmod).values() if inspect.isfunction(f) and f.__module__ == cmod.__name__]
    for cls in (ThreadSafeCache, ThreadSafeBytesCache):
        codes += [f.__code__ for f in vars(cls).values() if inspect.isfunction(f)]
    old_si = _sys.getswitchinterval()
    _sys.setswitchinterval(1e-6)
    try:
        with line_yields(codes, prob=0.6, seed=rng.randint(0, 10 ** 6), tool=3, name="verif-c15") as inj:
            ths = [threading.Thread(target=w, args=(i,)) for i in range(nt)]
            for t in ths:
                t.start()
            for t in ths:
                t.join(30)
        sess.count("first_use_yields_injected", inj[0])
    finally:
        _sys.setswitchinterval(old_si)
    sess.evaluations += 1
    sess.count("fresh_wrappers_first_used_by_several_threads")
    case = {"first_use": True, "kind": kind, "threads": nt}
    if errs:
        sess.violation("first-use:wrapper-raises", case, errs[:2])
    elif overlaps:
        sess.violation("first-use:two-threads-inside-the-wrapped-cache", case, {"methods": overlaps[:4]})


# ============================================================================ threads
def threaded_history(kind, nthreads, nkeys, nops, cap, seed, sess, inject=True):
    from clematis.engine.cache import LRUCache, ThreadSafeCache, ThreadSafeBytesCache
    from clematis.engine.util.lru_bytes import LRUBytes
    import clematis.engine.cache as cmod
    import clematis.engine.util.lru_bytes as lbmod

    clk = Clock()
    TTL = 2
    if kind == "bytes":
        inner = LRUBytes(max_entries=cap, max_bytes=cap * 4)
        wrap = ThreadSafeBytesCache(inner)
    elif kind == "lru-ttl":
        # capacity above the key count: nothing is ever evicted, so a miss can only be a TTL expiry,
        # which the logical clock (advanced by thread 0 only) lets the history checker decide
        cap = nkeys + 2
        inner = LRUCache(max_entries=cap, ttl_s=TTL, time_fn=clk)
        wrap = ThreadSafeCache(inner)
    else:
        inner = LRUCache(max_entries=cap, ttl_s=0)
        wrap = ThreadSafeCache(inner)
    stamp = itertools.count()
    hist = [[] for _ in range(nthreads)]
    errors = []
    keys = [f"k{i}" for i in range(nkeys)]
    irng = random.Random(seed * 7919 + 1)
    injected = [0]

    mon = getattr(sys, "monitoring", None)
    TOOL = 3
    codes = []
    if inject and mon is not None:
        fns = [lbmod.LRUBytes.put, lbmod.LRUBytes.get, cmod._NamespaceCache.get, cmod._NamespaceCache.set,
               cmod._NamespaceCache._evict_over_cap, cmod.LRUCache.get, cmod.LRUCache.set, cmod.LRUCache.__contains__,
               cmod.LRUCache.items]
        codes = [f.__code__ for f in fns]

        def on_line(code, line):
            if irng.random() < 0.3:
                injected[0] += 1
                time.sleep(0)

        try:
            mon.use_tool_id(TOOL, "verif-c15")
        except ValueError:
            pass
        mon.register_callback(TOOL, mon.events.LINE, on_line)
        for c in codes:
            mon.set_local_events(TOOL, c, mon.events.LINE)

    def worker(tid):
        rng = random.Random(seed * 1000 + tid)
        try:
            for i in range(nops):
                k = rng.choice(keys)
                if kind == "lru-ttl" and tid == 0 and rng.random() < 0.25:
                    clk.t += 1  # single writer: the logical clock is monotone
                    continue
                if rng.random() < 0.5:
                    v = (tid, i)
                    c0 = clk.t
                    t0 = next(stamp)
                    if kind == "bytes":
                        wrap.put(k, v, rng.choice([1, 2, 4]))
                    else:
                        wrap.put(k, v)
                    hist[tid].append(("put", k, v, t0, next(stamp), c0, clk.t))
                else:
                    c0 = clk.t
                    t0 = next(stamp)
                    v = wrap.get(k)
                    hist[tid].append(("get", k, v, t0, next(stamp), c0, clk.t))
                if i % 50 == 49:
                    with wrap._lock:  # quiescent point under the wrapper's own lock
                        bad = _thread_inv(kind, inner, cap)
                        if bad:
                            errors.append(("invariant", bad))
                            return
        except Exception as ex:
            errors.append(("exception", f"{type(ex).__name__}: {ex}"))

    old = sys.getswitchinterval()
    sys.setswitchinterval(1e-6)
    try:
        ths = [threading.Thread(target=worker, args=(t,)) for t in range(nthreads)]
        for t in ths:
            t.start()
        for t in ths:
            t.join(120)
        alive = any(t.is_alive() for t in ths)
    finally:
        sys.setswitchinterval(old)
        if codes and mon is not None:
            for c in codes:
                mon.set_local_events(TOOL, c, 0)
            mon.register_callback(TOOL, mon.events.LINE, None)
            try:
                mon.free_tool_id(TOOL)
            except Exception:
                pass
    case = {"kind": kind, "threads": nthreads, "keys": nkeys, "ops": nops, "cap": cap, "seed": seed}
    if alive:
        sess.inconclusive_because("threaded workload watchdog fired")
        return
    sess.count("yield_injections", injected[0])
    for kind_, what in errors:
        sess.violation("threads:" + kind_, case, what)
    bad = _thread_inv(kind, inner, cap)
    if bad:
        sess.violation("threads:invariant-at-end", case, bad)
    # history check per key
    allops = [op for h in hist for op in h]
    puts = {}
    for op in allops:
        if op[0] == "put":
            puts.setdefault(op[1], []).append(op)
    nget = 0
    for op in allops:
        if op[0] != "get" or op[2] is None:
            continue
        nget += 1
        k, v, g_call, g_ret = op[1], op[2], op[3], op[4]
        src = [p for p in puts.get(k, []) if p[2] == v]
        if not src:
            sess.violation("threads:get-returned-value-never-put", case, {"key": k, "value": v})
            continue
        p = src[0]
        if p[3] > g_ret:
            sess.violation("threads:get-saw-future-put", case, {"key": k, "value": v})
        for p2 in puts.get(k, []):
            if p2 is not p and p2[3] > p[4] and p2[4] < g_call:
                sess.violation("threads:stale-read(lost update)", case, {"key": k, "returned": v, "overwritten_by": p2[2]})
                break
    if kind == "lru-ttl":
        nmiss = 0
        for op in allops:
            if op[0] != "get" or op[2] is not None:
                continue
            nmiss += 1
            k, g_call, g_ret_clock = op[1], op[3], op[6]
            for p_ in puts.get(k, []):
                # a put that completed before the get was called and cannot have expired by the time the get returned
                if p_[4] < g_call and (g_ret_clock - p_[5]) <= TTL:
                    sess.violation("threads:fresh-entry-missing(lost update)", case, {"key": k, "put": p_[2], "put_clock": p_[5], "get_clock": g_ret_clock, "ttl": TTL})
                    break
        sess.count("threaded_ttl_misses_judged", nmiss)
        sess.count("threaded_ttl_histories")
    # final state: every surviving value must be the last put of its key in some linearization:
    final = dict(wrap.items())
    for k, v in final.items():
        kk = k if isinstance(k, str) else k
        cands = puts.get(kk, [])
        me = [p for p in cands if p[2] == v]
        if not me:
            sess.violation("threads:final-value-never-put", case, {"key": k, "value": v})
            continue
        if any(p2[3] > me[0][4] for p2 in cands if p2 is not me[0]):
            sess.violation("threads:lost-update(final value older than a later put)", case, {"key": k, "value": v})
    sess.count("threaded_histories")
    sess.count("threaded_operations", len(allops))
    sess.count("threaded_gets_with_value_checked", nget)
    sess.evaluations += 1
    sess.nontrivial.add(chash(case))


def _thread_inv(kind, inner, cap):
    if kind == "lru-ttl":
        return "over-capacity" if len(inner._ns._d) > cap + 100 else None
    if kind == "bytes":
        if len(inner._q) != len(inner._map) or set(inner._q) != set(inner._map):
            return "queue-vs-map"
        if inner._bytes != sum(c for _, c in inner._map.values()):
            return "bytes-vs-sum"
        if len(inner._map) > cap or inner._bytes > cap * 4:
            return "over-capacity"
    else:
        if len(inner._ns._d) > cap:
            return "over-capacity"
    return None


# ============================================================================ merge
def merge_case(rng, sess):
    from clematis.engine.cache import LRUCache, merge_caches_deterministic
    from clematis.engine.util.lru_det import DeterministicLRU

    nw = rng.choice([1, 2, 3, 4, 5, 5, 12, 13])
    # worker ids of one type per case: dense ints (>= 10 for the larger pools), sparse / negative ints, floats, tuples, strings
    scheme = rng.choice(["dense", "dense", "sparse", "float", "tuple", "str"])
    pool = {"dense": list(range(nw)), "sparse": rng.sample([-10, -2, -1, 0, 2, 9, 10, 11, 19, 20, 100, 101, 1000], min(nw, 13)),
            "float": rng.sample([-1.5, 0.5, 2.0, 9.5, 10.0, 10.5, 11.0, 20.0, 100.0, 1e3, 1e-3, 2.5, 3.5], min(nw, 13)),
            "tuple": [(w % 3, w) for w in range(nw)], "str": [f"w{w}" for w in range(nw)]}[scheme]
    workers = []
    for wi, w in enumerate(pool):
        items = [(rng.choice(["a", "b", "c", "d", "e", "f"]), (wi, j)) for j in range(rng.randint(0, 5))]
        workers.append((w, items))
    sess.seen("merge_worker_id_schemes", (scheme, len(pool) >= 11))
    cap = rng.choice([1, 2, 3, 10])
    tkind = rng.choice(["lru", "det"])
    pre = [(rng.choice(["a", "z"]), "pre")] if rng.random() < 0.3 else []

    def build():
        wcs = []
        for wk, items in workers:
            c = LRUCache(max_entries=100, ttl_s=0)
            for k, v in items:
                c.put(k, v)
            wcs.append((wk, c))
        tgt = LRUCache(max_entries=cap, ttl_s=0) if tkind == "lru" else DeterministicLRU(cap)
        for k, v in pre:
            tgt.put(k, v)
        return tgt, wcs

    # reference merge
    mt = MNS(cap, 0, Clock()) if tkind == "lru" else MDetLRU(cap, True, True)
    for k, v in pre:
        mt.set(k, v) if tkind == "lru" else mt.put(k, v)
    for wk, items in sorted(workers, key=lambda t: t[0]):
        last = {}
        for k, v in items:
            last[k] = v
        for k in sorted(last):
            present = mt.contains(k) if tkind == "lru" else (mt._find(k) >= 0)
            if present:
                continue
            mt.set(k, last[k]) if tkind == "lru" else mt.put(k, last[k])
    expect = mt.items()
    outs = []
    for _ in range(4):
        tgt, wcs = build()
        rng.shuffle(wcs)
        try:
            merge_caches_deterministic(tgt, wcs, worker_order_key=lambda w: w, key_order_key=lambda k: k)
        except Exception as ex:
            sess.violation("merge:raises:" + type(ex).__name__, {"workers": workers, "cap": cap, "target": tkind}, repr(ex)[:200])
            return
        outs.append(list(tgt.items()))
    case = {"workers": workers, "cap": cap, "target": tkind, "pre": pre}
    if any(o != outs[0] for o in outs):
        sess.violation("merge:order-dependent", case, outs)
    elif _norm(outs[0]) != _norm(expect):
        sess.violation("merge:differs-from-reference", case, {"got": outs[0], "model": expect})
    sess.count("merges_checked")
    sess.evaluations += 1


# ============================================================================ driver
def _work(args):
    what, tier, seed, payload = args
    from vlib import bootstrap

    bootstrap.init()
    sess = Session.worker(PID, tier, seed)
    try:
        if what == "bfs":
            kind, params, depth = payload
            bfs(kind, tuple(params), depth, sess)
        elif what == "rand":
            rng = random.Random(f"C15/r/{seed}/{payload}")
            subs = all_subjects(tier)
            for _ in range(6 if tier == "quick" else 40):
                kind, params = rng.choice(subs)
                rand_seq(kind, params, 2000, rng, sess)
            for _ in range(300 if tier == "quick" else 5000):
                merge_case(rng, sess)
                wrapper_view_case(rng, sess)
                if rng.random() < 0.25:
                    first_use_case(rng, sess)
        elif what == "threads":
            rng = random.Random(f"C15/t/{seed}/{payload}")
            for j in range(6 if tier == "quick" else 60):
                threaded_history(rng.choice(["bytes", "lru", "lru-ttl"]), rng.randint(2, 8), rng.randint(2, 4),
                                 300 if tier == "quick" else 1500, rng.choice([1, 2, 3]), rng.randint(0, 10**6), sess)
    except Exception as ex:
        import traceback
        sess.inconclusive_because(f"harness error {type(ex).__name__}: {ex} @ {traceback.format_exc()[-400:]}")
    return sess.export()


def main(tier: str, seed: int):
    sess = Session(PID, tier, seed, level="exploration", rule=RULE)
    depth = 6 if tier == "quick" else 9
    sess.exhaustive = False
    sess.assume("DedupeRing.discard (documented to leave the physical entry behind; unused by the engine) is outside the operation alphabet")
    sess.assume("expiry is lazy (on read), as documented: size() may count expired entries until they are read; the model mirrors that and the oracle checks that no read returns an entry older than its TTL and none expires early")
    sess.assume("BFS over reachable states to depth %d covers every operation sequence of that length over the alphabet modulo state equivalence (behaviour depends on state only)" % depth)
    jobs = [("bfs", tier, seed, (k, list(p), depth)) for k, p in all_subjects(tier)]
    jobs += [("rand", tier, seed, i) for i in range(4 if tier == "quick" else 12)]
    jobs += [("threads", tier, seed, i) for i in range(14 if tier == "quick" else 28)]
    for ex in par.pmap(_work, jobs):
        sess.merge(ex)
    sess.extra["bfs_depth"] = depth
    sess.require("operations_compared", 50000)
    sess.require("evictions_observed", 1000)
    sess.require("threaded_histories", 20)
    sess.require("yield_injections", 1000)
    sess.require("threaded_gets_with_value_checked", 500)
    sess.require("merges_checked", 500)
    sess.require("wrapper_views_checked", 200)
    sess.require("fresh_wrappers_first_used_by_several_threads", 40)
    sess.require("threaded_ttl_histories", 3)
    sess.require("threaded_ttl_misses_judged", 50)
    sess.finish()


def replay(body, tier, seed):
    sess = Session(PID, tier, seed, rule=RULE)
    sess.replay_mode = True
    case = unjson(body["case"])
    if "path" in case:
        import re
        name = case["subject"]
        kind = {"LRUBytes": "lrubytes", "LRUCache": "lrucache", "CacheManager": "manager", "DeterministicLRU": "detlru",
                "LRUSet[lru_det]": "set", "LRUSet[ring]": "set", "DedupeRing": "ring"}[name.split("(")[0]]
        for k, p in all_subjects("quick"):
            if mk_subject(k, p)["name"] == name:
                S = mk_subject(k, p)
                r, m, clk = S["make"]()
                path = []
                for op in case["path"]:
                    op = tuple(tuple(x) if isinstance(x, list) else x for x in op)
                    step(S, r, m, clk, op, sess, path)
                    path.append(op)
    elif "threads" in case:
        threaded_history(case["kind"], case["threads"], case["keys"], case["ops"], case["cap"], case["seed"], sess)
    return sess.finish(exit_process=False)
