"""C06 - Snapshots round-trip the state they were written from.

Monitors on the real write_snapshot / load_latest_snapshot / _pick_latest_snapshot_path:
  (1) write -> load into a fresh state: version string, store weight map (NaN-aware, order included) and
      GEL graph compared with an independent reference sanitiser (clamp to the configured bounds, round
      to 6 decimals, non-finite -> 0, canonical unordered `min->max` key, last record per pair wins);
      the `gel` section of the body must equal the loaded graph;
  (2) write -> load -> write chains of length 3: every later body byte-identical to the first;
  (3) discovery in the directory salted with decoys (sidecars, temp names as _make_tmp produces them,
      *.json.zst, *.jsonl, newer mtimes) must return the real body, and must return None when only
      decoys exist;
  (4) body and sidecar carry schema_version "v1".
"""
from __future__ import annotations

import copy
import json
import math
import os
import random
import time
from types import SimpleNamespace as NS

from vlib import par
from vlib.harness import to_ad, tmpdir, patched
from vlib.session import Session, unjson, chash

PID = "C06"
RULE = ("one evaluation = one generated state written, loaded into a fresh state and re-written twice in a directory "
        "salted with decoys; non-trivial = at least one edge altered by sanitisation (clamp / rounding / re-key / non-finite) "
        "and at least one store weight")
ARROW = "→"
IDS = ["a", "b", "c", "ep10", "ep2", "É", "n:1", "x y", "a__b", "0"]


class WStore:
    def __init__(self):
        self.w = {}


def gen_case(rng):
    lo, hi = rng.choice([(-1.0, 1.0), (-1.0, 1.0), (0.0, 1.0), (-0.5, 0.5), (-1.0, 0.25)])
    nw = rng.randint(0, 30) if rng.random() < 0.8 else 0
    weights = []
    for i in range(nw):
        weights.append([rng.choice(["node", "edge"]), rng.choice(["n:a", "n:b", "e:a|r|b", "ü:1", "x", str(i)]), rng.choice(["weight", "w2"]),
                        rng.choice([0.0, 0.25, -0.75, 1.0, 1e-9, 123456.789, float("inf"), float("-inf"), float("nan"), 0.1 + 0.2])])
    ne = rng.randint(0, 14)
    edges = []
    for i in range(ne):
        a, b = rng.choice(IDS), rng.choice(IDS)
        w = rng.choice([0.5, -0.5, 0.1234565, 0.1234575, 0.9999995, 1.0000004, 1.5, -3.0, float("nan"), float("inf"), float("-inf"), 1e-7, 0.0, 0.3000000000000001, 2, True])
        e = {"src": a, "dst": b, "weight": w}
        r = rng.random()
        if r < 0.5:
            e["rel"] = "coact"
        elif r < 0.7:
            e["rel"] = rng.choice(["concept", "x"])
        if rng.random() < 0.5:
            e["attrs"] = {"coact": rng.randint(0, 9), "last_seen_turn": rng.choice([None, 3])}
        if rng.random() < 0.3:
            e["updated_at"] = rng.choice([None, "2023-01-01T00:00:00Z"])
        if rng.random() < 0.08:
            e[rng.choice(["src", "dst"])] = rng.choice(["", None])
        if rng.random() < 0.05:
            del e["weight"]
        edges.append(e)
    edges_as = rng.choice(["dict-canon", "dict-legacy", "list", "dict-junk-keys"])
    nodes_as = rng.choice(["dict", "list", "none"])
    nodes = [{"id": i, "label": rng.choice([None, "L" + i]), "attrs": {}} for i in rng.sample(IDS, rng.randint(0, 4))]
    meta = rng.choice([None, {}, {"schema": "v1", "merges": [{"nodes": ["a", "b"]}], "splits": [], "promotions": [], "concept_nodes_count": 2},
                       {"merges": "bad", "concept_nodes_count": "x", "last_update": "t"}, {"edges_count": 99, "last_update": None}])
    return {"bounds": [lo, hi], "weights": weights, "edges": edges, "edges_as": edges_as, "nodes": nodes, "nodes_as": nodes_as, "meta": meta,
            "agent": rng.choice(["A", "Ambrose", "agent-7", "Ünï", "a.b"]), "turn": rng.choice([0, 1, 7, "3", "x"]), "version": rng.choice(["1", "7", "v-x", "0", "007", "00421337", "1_000", "+5", " 9", "٣"]),
            "has_store": rng.random() < 0.85, "graph_key": rng.choice(["graph", "graph", "gel"]), "ndeltas": rng.randint(0, 3),
            # an older snapshot of another agent in the same directory: [file-name stem, seconds older]
            # the same agent / version written once before with ANOTHER state (a re-snapshot without a version bump)
            "prewrite_same_version": rng.random() < 0.4, "booted_first": rng.random() < 0.3,
            # write order "this agent, the other agent, this agent again" with the files' own modification times
            "sibling_between": rng.random() < 0.5,
            "graph_cfg": rng.choice([None, None, {"decay": {"epsilon_prune": 0.2, "floor": 0.1}}, {"decay": {"epsilon_prune": 0.01}}, {"enabled": True, "update": {"clamp_min": -0.3, "clamp_max": 0.3}}]),
            "sde": rng.choice([None, None, "1700000000", "1700000000.25", "2023-11-14", "", "-5", "1e9"]),
            "older_sibling": rng.choice([None, ["zz-older", 0.5], ["0-older", 0.5], ["zz-older", 0.004], ["zz-older", 3.0], ["~older", 0.25]])}


def ekey(a, b):
    return f"{a}{ARROW}{b}" if a <= b else f"{b}{ARROW}{a}"


def build_gel(case):
    edges = case["edges"]
    if case["edges_as"] == "list":
        ed = [dict(e) for e in edges]
    else:
        ed = {}
        for i, e in enumerate(edges):
            e = dict(e)
            a, b = str(e.get("src", "")), str(e.get("dst", ""))
            if case["edges_as"] == "dict-canon":
                k = ekey(a, b)
            elif case["edges_as"] == "dict-legacy":
                k = f"{min(a, b)}__{max(a, b)}__{e.get('rel', 'coact')}"
            else:
                k = f"k{i}"
            ed[k] = e
    if case["nodes_as"] == "dict":
        nd = {n["id"]: dict(n) for n in case["nodes"]}
    elif case["nodes_as"] == "list":
        nd = [dict(n) for n in case["nodes"]]
    else:
        nd = {}
    g = {"nodes": nd, "edges": ed}
    if case["meta"] is not None:
        g["meta"] = copy.deepcopy(case["meta"])
    return g


# --------------------------------------------------------------------------- reference sanitiser
def ref_round6(x):
    if not math.isfinite(x):
        return 0.0
    return round(float(x), 6)


def ref_edges(gel, lo, hi, eps=0.0):
    ge = gel.get("edges", {})
    items = list(ge.values()) if isinstance(ge, dict) else [e for e in ge if isinstance(e, dict)]
    stage1 = {}
    for e in items:
        if not isinstance(e, dict):
            continue
        src, dst, rel = str(e.get("src", "")), str(e.get("dst", "")), str(e.get("rel", "coact"))
        w = float(e.get("weight", 0.0))
        if w < lo:
            w = lo
        elif w > hi:
            w = hi
        w = ref_round6(w)
        if abs(w) < eps:
            w = 0.0  # graph.decay.epsilon_prune: weights below it are stored as 0.0 (the edge itself stays)
        a, b = (src, dst) if src <= dst else (dst, src)
        stage1[(a, b, rel)] = {"src": src, "dst": dst, "rel": rel, "weight": w, "updated_at": e.get("updated_at"), "attrs": e.get("attrs") if isinstance(e.get("attrs"), dict) else {}}
    out = {}
    for (a, b, rel), rec in stage1.items():
        if rec["src"] and rec["dst"]:
            k = ekey(rec["src"], rec["dst"])
            r = dict(rec)
            r["id"] = k
            out[k] = r
        else:
            out[f"{a}__{b}__{rel}"] = rec
    return out


def nan_eq(a, b):
    if isinstance(a, float) and isinstance(b, float) and math.isnan(a) and math.isnan(b):
        return True
    if isinstance(a, dict) and isinstance(b, dict):
        return a.keys() == b.keys() and all(nan_eq(a[k], b[k]) for k in a)
    if isinstance(a, (list, tuple)) and isinstance(b, (list, tuple)):
        return len(a) == len(b) and all(nan_eq(x, y) for x, y in zip(a, b))
    return a == b and type(a) is type(b)


def check_case(case, sess: Session):
    import clematis.engine.snapshot as S
    from clematis.engine.types import ProposedDelta

    lo, hi = case["bounds"]
    with tmpdir("c06_") as d:
        raw_cfg = {"t4": {"snapshot_dir": d, "weight_min": lo, "weight_max": hi, "snapshot_every_n_turns": 1}}
        if case.get("graph_cfg"):
            raw_cfg["graph"] = copy.deepcopy(case["graph_cfg"])  # graph-layer settings must not change what a snapshot restores
        cfg = to_ad(raw_cfg)
        # the build-reproducibility variable the sidecar stamp honours, in well- and ill-formed spellings
        old_sde = os.environ.get("SOURCE_DATE_EPOCH")
        if case.get("sde") is None:
            os.environ.pop("SOURCE_DATE_EPOCH", None)
        else:
            os.environ["SOURCE_DATE_EPOCH"] = case["sde"]
        try:
            return _check_case_inner(case, sess, d, cfg, lo, hi)
        finally:
            if old_sde is None:
                os.environ.pop("SOURCE_DATE_EPOCH", None)
            else:
                os.environ["SOURCE_DATE_EPOCH"] = old_sde


def _check_case_inner(case, sess, d, cfg, lo, hi):
    import clematis.engine.snapshot as S
    from clematis.engine.types import ProposedDelta

    if True:
        ctx = NS(turn_id=case["turn"], agent_id=case["agent"], cfg=cfg, config=cfg)
        gel = build_gel(case)
        st = WStore()
        for k, tid, attr, v in case["weights"]:
            st.w[(k, tid, attr)] = float(v)
        state = {case["graph_key"]: gel, "version_etag": case["version"]}
        if case["has_store"]:
            state["store"] = st
        if case.get("booted_first"):
            # the state went through the boot loader on the (still empty) directory before the runtime filled its graph: the
            # loader installs its own empty containers, the runtime then replaces / fills state["graph"]
            booted = {"version_etag": None}
            if case["has_store"]:
                booted["store"] = st
            try:
                S.load_latest_snapshot(ctx, booted)
            except Exception as ex:
                sess.violation("load-raises:" + type(ex).__name__, case, repr(ex)[:200])
                return
            booted["graph"] = gel
            booted["version_etag"] = case["version"]
            state = booted
            sess.count("states_booted_on_an_empty_directory_first")
        deltas = [ProposedDelta("node", f"n:{i}", "weight", 0.1 * i, op_idx=i, idx=i) for i in range(case["ndeltas"])]
        gel0 = copy.deepcopy(gel)
        sess.evaluations += 1
        older = None
        between = bool(case.get("sibling_between") and case.get("older_sibling") and case.get("prewrite_same_version"))
        if between:
            st0 = WStore()
            st0.w[("node", "earlier-content", "weight")] = 0.125
            try:
                S.write_snapshot(ctx, {"graph": {"nodes": {}, "edges": {"p→q": {"src": "p", "dst": "q", "weight": 0.25, "rel": "coact"}}, "meta": {}}, "version_etag": case["version"], "store": st0},
                                 case["version"], applied=0, deltas=[])
                sess.count("prewrites_same_agent_and_version")
            except Exception as ex:
                sess.violation("write-raises:" + type(ex).__name__, case, repr(ex)[:200])
                return
            time.sleep(0.03)
        if case.get("older_sibling"):
            try:
                older = S.write_snapshot(NS(turn_id=0, agent_id=case["older_sibling"][0], cfg=cfg, config=cfg), {"graph": {"nodes": {}, "edges": {}, "meta": {}}, "version_etag": "older-sibling", "store": WStore()},
                                         "older-sibling", applied=0, deltas=[])
            except Exception as ex:
                sess.violation("write-raises:" + type(ex).__name__, case, repr(ex)[:200])
                return
        if between:
            time.sleep(0.03)
        if case.get("prewrite_same_version") and not between:
            st0 = WStore()
            st0.w[("node", "earlier-content", "weight")] = 0.125
            try:
                S.write_snapshot(ctx, {"graph": {"nodes": {}, "edges": {"p→q": {"src": "p", "dst": "q", "weight": 0.25, "rel": "coact"}}, "meta": {}}, "version_etag": case["version"], "store": st0},
                                 case["version"], applied=0, deltas=[])
                sess.count("prewrites_same_agent_and_version")
            except Exception as ex:
                sess.violation("write-raises:" + type(ex).__name__, case, repr(ex)[:200])
                return
        try:
            path = S.write_snapshot(ctx, state, case["version"], applied=case["ndeltas"], deltas=deltas)
        except Exception as ex:
            sess.violation("write-raises:" + type(ex).__name__, case, repr(ex)[:200])
            return
        sess.count("snapshots_written")
        # the header+payload writer (full and delta files): every file it writes has its schema sidecar
        try:
            with tmpdir("c06a_") as d2:
                weird = ["ü→ñ", "ls\u2028id", "ps\u2029id", "nel\u0085id", "vt\x0bid", "plain"][len(case["edges"]) % 6]
                pay0 = {"version_etag": "e0", "graph": {"k": 1}, "gel": {"edges": {}, "nodes": {weird: {"id": weird, "label": weird}}}}
                pay1 = {"version_etag": "e1", "graph": {"k": 2}, "gel": {"edges": {"a→b": {"w": 0.5}, weird + "→z": {"w": 0.25}}, "nodes": {weird: {"id": weird, "label": None}}}, "agent": case["agent"]}
                p0, d0 = S.write_snapshot_auto(d2, etag_from=None, etag_to="e0", payload=pay0, delta_mode=False)
                p1, d1 = S.write_snapshot_auto(d2, etag_from="e0", etag_to="e1", payload=pay1, delta_mode=True)
                for pth, want_ in ((p0, pay0), (p1, pay1)):
                    try:
                        back_ = S.read_snapshot(path=pth)
                    except Exception as ex:
                        back_ = "raised " + type(ex).__name__
                    if back_ != want_:
                        sess.violation("auto-writer:file-does-not-read-back", case, {"file": os.path.basename(pth), "id": weird, "got": str(back_)[:160]})
                for pth, was_delta in ((p0, d0), (p1, d1)):
                    sess.count("auto_writer_files_checked" + (":delta" if was_delta else ":full"))
                    try:
                        side = json.load(open(pth + ".meta", encoding="utf-8"))
                        ok_ = side.get("schema_version") == "v1"
                    except Exception:
                        ok_ = False
                    if not ok_:
                        sess.violation("schema-marker-missing-in-sidecar", case, {"file": os.path.basename(pth), "delta": was_delta})
        except Exception as ex:
            sess.violation("auto-writer-raises:" + type(ex).__name__, case, repr(ex)[:200])
        sess.sample({k: case[k] for k in ("bounds", "edges_as", "nodes_as", "agent", "turn", "version", "meta")} | {"edges": case["edges"][:4], "weights": case["weights"][:3]})
        if not nan_eq(gel, gel0):
            sess.violation("write-mutates-state-graph", case, None)
        body1 = open(path, "rb").read()
        try:
            b1 = json.loads(body1)
        except Exception as ex:
            sess.violation("body-not-json", case, repr(ex)[:100])
            return
        # (4) schema markers
        if b1.get("schema_version") != "v1":
            sess.violation("schema-marker-missing-in-body", case, b1.get("schema_version"))
        try:
            side = json.load(open(path + ".meta", encoding="utf-8"))
            if side.get("schema_version") != "v1":
                sess.violation("schema-marker-missing-in-sidecar", case, side)
        except Exception as ex:
            sess.violation("sidecar-missing-or-unreadable", case, repr(ex)[:100])
        if os.path.basename(path) != f"state_{case['agent']}.json":
            sess.violation("snapshot-file-name", case, os.path.basename(path))
        # (3) decoys, all newer than the body
        now = time.time()
        if older and between:
            # written in the order: this agent, the sibling, this agent again (30 ms apart).  The file written last is the
            # latest one: discovery goes by modification time, so the rewrite must carry its own time, not the replaced file's
            sess.count("rewrites_after_a_sibling_was_written(natural mtimes)")
            if os.path.getmtime(path) <= os.path.getmtime(older):
                sess.violation("rewritten-snapshot-not-newer-than-the-sibling-written-before-it", case,
                               {"mtime_rewritten": os.path.getmtime(path), "mtime_sibling": os.path.getmtime(older)})
        elif older:
            # pin the two real snapshots' mtimes: the sibling was written `gap` seconds before the body (sub-second gaps
            # land both in one whole second: x.75 and x.75 - gap)
            tb = float(int(now)) - 10 + 0.75  # in the past: later rewrites of the body stay the newest file
            os.utime(path, (tb, tb))
            os.utime(older, (tb - case["older_sibling"][1], tb - case["older_sibling"][1]))
            if os.path.getmtime(older) < os.path.getmtime(path):
                sess.count("older_sibling_snapshots(mtime strictly older)")
                if int(os.path.getmtime(older)) == int(os.path.getmtime(path)):
                    sess.count("older_sibling_within_the_same_second")
            else:
                sess.inconclusive_because("filesystem did not keep the sub-second mtime gap")
        decoys = [os.path.basename(path) + ".k3_9xq1z", os.path.basename(path) + ".zst", "state_zzz.json.meta", "snap_000999.json.meta", "snap_000999.json.tmp8",
                  "state_B.jsonl", "notes.json.bak", "state_B.json.abcd1234"]
        for i, n in enumerate(decoys):
            with open(os.path.join(d, n), "w") as f:
                f.write('{"version_etag": "666", "schema_version": "v1", "gel": {"nodes": {}, "edges": {"q→r": {"src": "q", "dst": "r", "weight": 1}}}}')
            os.utime(os.path.join(d, n), (now + 100 + i, now + 100 + i))
        # real writer leftovers: a temp file exactly as the atomic writer creates it, and the leftover of a write
        # that is killed at the rename (BaseException is not swallowed by the writer's cleanup)
        import clematis.io.atomic as A
        from pathlib import Path as _P

        try:
            tmp = A._make_tmp(_P(path))
            with open(tmp, "w") as f:
                f.write('{"version_etag": "667", "schema_version": "v1"}')
            os.utime(tmp, (now + 500, now + 500))
            sess.count("real_temp_leftovers_planted")
        except Exception as ex:
            sess.inconclusive_because(f"could not plant a real temp leftover: {ex}")

        class _Kill(BaseException):
            pass

        def _killed(a, b):
            raise _Kill()

        before_names = set(os.listdir(d))
        try:
            with patched(A.os, "replace", _killed):
                A.atomic_write_text(path, '{"version_etag": "668", "schema_version": "v1"}')
        except _Kill:
            pass
        for n in set(os.listdir(d)) - before_names:
            os.utime(os.path.join(d, n), (now + 600, now + 600))
            sess.count("killed_write_leftovers")
        if open(path, "rb").read() != body1:
            sess.violation("killed-write-changed-destination", case, None)
        picked = S._pick_latest_snapshot_path(d)
        sess.count("discovery_calls")
        if picked is None or os.path.realpath(picked) != os.path.realpath(path):
            sess.violation("discovery-picked-decoy-or-nothing", case, {"picked": picked and os.path.basename(picked)})
        # load into a fresh state
        st2 = WStore()
        st2.w[("node", "stale", "weight")] = 9.0
        fresh = {"version_etag": None}
        if case["has_store"]:
            fresh["store"] = st2
        try:
            info = S.load_latest_snapshot(ctx, fresh)
        except Exception as ex:
            sess.violation("load-raises:" + type(ex).__name__, case, repr(ex)[:200])
            return
        sess.count("snapshots_loaded")
        if not info.get("loaded") or os.path.realpath(info.get("path") or "") != os.path.realpath(path):
            sess.violation("load-did-not-load-the-written-file", case, {"info": {k: str(v) for k, v in info.items()}})
            return
        if fresh.get("version_etag") != str(case["version"]):
            sess.violation("version-not-restored", case, {"got": fresh.get("version_etag"), "written": case["version"]})
        if case["has_store"]:
            if list(st2.w.keys()) != list(st.w.keys()) or not all(nan_eq(st2.w[k], st.w[k]) for k in st.w):
                sess.violation("store-weights-not-restored", case, {"got": [(k, repr(v)) for k, v in list(st2.w.items())[:4]], "written": [(k, repr(v)) for k, v in list(st.w.items())[:4]]})
        eps_ = float((((case.get("graph_cfg") or {}).get("decay") or {}).get("epsilon_prune", 0.0)) or 0.0)
        exp = ref_edges(gel0, lo, hi, max(eps_, 0.0))
        got = fresh.get("graph", {}).get("edges", {})
        if fresh.get("graph") is not fresh.get("gel") and fresh.get("graph") != fresh.get("gel"):
            sess.violation("graph-and-gel-views-differ-after-load", case, None)
        if not nan_eq(dict(got), exp):
            ks = [k for k in set(got) | set(exp) if not nan_eq(got.get(k), exp.get(k))][:3]
            sess.violation("gel-edges-not-restored-as-documented", case, {"keys": ks, "got": [got.get(k) for k in ks], "model": [exp.get(k) for k in ks]})
        if not nan_eq(b1.get("gel", {}).get("edges"), dict(got)):
            sess.violation("body-gel-differs-from-loaded-graph", case, None)
        for k, r in got.items():
            w = r.get("weight")
            if isinstance(w, float) and (math.isnan(w) or w < lo or w > hi or round(w, 6) != w):
                sess.violation("loaded-weight-not-clamped-or-rounded", case, {"key": k, "w": w})
        exp_nodes = {}
        if case["nodes_as"] == "dict":
            exp_nodes = {n["id"]: n for n in case["nodes"]}
        elif case["nodes_as"] == "list":
            exp_nodes = {n["id"]: n for n in case["nodes"] if n["id"]}
        if fresh.get("graph", {}).get("nodes") != exp_nodes:
            sess.violation("gel-nodes-not-restored", case, {"got": fresh.get("graph", {}).get("nodes"), "exp": exp_nodes})
        # (2) fixpoint chain
        cur = fresh
        for rnd in range(2):
            # remove the body so that the rewrite cannot trivially be "the same file left in place"
            os.replace(path, path + f".prev{rnd}")
            try:
                p2 = S.write_snapshot(ctx, cur, cur.get("version_etag"), applied=case["ndeltas"], deltas=deltas)
            except Exception as ex:
                sess.violation("rewrite-raises:" + type(ex).__name__, case, repr(ex)[:200])
                return
            body2 = open(p2, "rb").read()
            sess.count("rewrites_compared")
            if body2 != body1:
                try:
                    b2 = json.loads(body2)
                    diff = [k for k in set(b1) | set(b2) if not nan_eq(b1.get(k), b2.get(k))]
                except Exception:
                    diff = ["<unparsable>"]
                sess.violation("rewrite-not-byte-identical", case, {"round": rnd, "differing_top_level_keys": diff or ["<key order / formatting>"]})
                break
            nxt = {"version_etag": None}
            if case["has_store"]:
                nxt["store"] = WStore()
            S.load_latest_snapshot(ctx, nxt)
            cur = nxt
        # the loaded state snapshotted once more under the NEXT version (the caller's argument is the version of the file, as
        # Apply hands it over after bumping; the loaded state still carries the old one)
        try:
            nv = str(case["version"]) + "-next"
            p4 = S.write_snapshot(ctx, cur, nv, applied=0, deltas=[])
            b4 = json.loads(open(p4, "rb").read())
            nxt2 = {"version_etag": None}
            if case["has_store"]:
                nxt2["store"] = WStore()
            S.load_latest_snapshot(ctx, nxt2)
            sess.count("loaded_states_resnapshotted_under_the_next_version")
            if b4.get("version_etag") != nv or nxt2.get("version_etag") != nv:
                sess.violation("resnapshot-keeps-the-old-version", case, {"written_as": nv, "body": b4.get("version_etag"), "loaded": nxt2.get("version_etag")})
        except Exception as ex:
            sess.violation("rewrite-raises:" + type(ex).__name__, case, repr(ex)[:200])
        # only decoys left -> discovery must not invent a snapshot
        for n in os.listdir(d):
            if n.endswith(".json"):
                os.unlink(os.path.join(d, n))
        p3 = S._pick_latest_snapshot_path(d)
        if p3 is not None:
            sess.violation("discovery-picked-decoy-or-nothing", case, {"picked_when_only_decoys": os.path.basename(p3)})
        altered = any(not nan_eq(exp.get(ekey(str(e.get("src", "")), str(e.get("dst", ""))), {}).get("weight"), e.get("weight")) for e in case["edges"] if e.get("src") and e.get("dst"))
        if altered and case["weights"] and case["has_store"]:
            sess.nontrivial.add(chash(case))
        if altered:
            sess.count("cases_with_sanitised_edges")
        # --- a long-lived ctx: the weight bounds are changed in place on its configuration and the same state is written again
        #     through the same ctx.  The body must be the one a fresh ctx with an equal configuration writes.
        try:
            nlo, nhi = [(-0.1, 0.1), (0.0, 0.05), (lo / 2.0 if lo else -0.05, hi / 2.0 if hi else 0.05), (-5.0, 5.0)][len(case["edges"]) % 4]
            if not (nlo < nhi):
                nlo, nhi = -0.1, 0.1
            where = "graph" if (len(case["weights"]) % 2 and "graph" in cfg) else "t4"
            cfg[where]["weight_min"], cfg[where]["weight_max"] = nlo, nhi
            p_live = S.write_snapshot(ctx, state, case["version"], applied=0, deltas=[])
            b_live = open(p_live, "rb").read()
            import json as _json
            cfg_twin = to_ad(_json.loads(_json.dumps(cfg)))
            p_twin = S.write_snapshot(NS(turn_id=case["turn"], agent_id=case["agent"], cfg=cfg_twin, config=cfg_twin), state, case["version"], applied=0, deltas=[])
            b_twin = open(p_twin, "rb").read()
            sess.count("rewrites_through_a_long_lived_ctx_after_a_bounds_change")
            if b_live != b_twin:
                sess.violation("long-lived-ctx:snapshot-follows-stale-bounds", case, {"bounds_now": [nlo, nhi], "section": where, "bounds_before": [lo, hi]})
        except Exception as ex:
            sess.violation("write-raises:" + type(ex).__name__, case, repr(ex)[:200])


def _chunk(args):
    tier, seed, i, n = args
    from vlib import bootstrap

    bootstrap.init()
    rng = random.Random(f"C06/{seed}/{i}")
    sess = Session.worker(PID, tier, seed)
    os.environ.pop("SOURCE_DATE_EPOCH", None)
    for _ in range(n):
        try:
            check_case(gen_case(rng), sess)
        except Exception as ex:
            import traceback
            sess.inconclusive_because(f"harness error {type(ex).__name__}: {ex} @ {traceback.format_exc()[-400:]}")
    return sess.export()


def main(tier: str, seed: int):
    sess = Session(PID, tier, seed, level="exploration", rule=RULE)
    sess.assume("edge weights are numbers (incl. NaN/inf/bool/int); non-numeric weights are outside the generated domain")
    sess.assume("single writer per directory: discovery among several state_* files with equal mtimes is not exercised")
    sess.assume("codec 'none' only (zstandard is not installed in this image)")
    total = 600 if tier == "quick" else 100000
    nchunks = par.NWORK * (1 if tier == "quick" else 4)
    per = max(1, total // nchunks)
    for ex in par.pmap(_chunk, [(tier, seed, i, per) for i in range(nchunks)]):
        sess.merge(ex)
    sess.require("snapshots_written", 300)
    sess.require("snapshots_loaded", 300)
    sess.require("rewrites_compared", 500)
    sess.require("loaded_states_resnapshotted_under_the_next_version", 100)
    sess.require("rewrites_through_a_long_lived_ctx_after_a_bounds_change", 100)
    sess.require("cases_with_sanitised_edges", 100)
    sess.require("discovery_calls", 300)
    sess.require("auto_writer_files_checked:delta", 100)
    sess.require("prewrites_same_agent_and_version", 60)
    sess.require("older_sibling_within_the_same_second", 30)
    sess.require("rewrites_after_a_sibling_was_written(natural mtimes)", 20)
    sess.require("real_temp_leftovers_planted", 300)
    sess.require("killed_write_leftovers", 300)
    sess.finish()


def replay(body, tier, seed):
    sess = Session(PID, tier, seed, rule=RULE)
    sess.replay_mode = True
    check_case(unjson(body["case"]), sess)
    return sess.finish(exit_process=False)
