"""C02 - Features behind a closed gate are inert.

For a validated base config B with gate g off, an in-range random assignment A inside g's subtree and a
scenario whose world gives the gated code something to do (memory with lexical overlap, preloaded GEL
edges, >= 2 graphs, >= 2 agents, plans with deltas that request reflection), the monitors compare the run
under B+A with the run under B-without-the-subtree: utterances, canonical logs byte for byte (non-canonical
t3*/gel streams with their timings masked), snapshot bodies, the deep state fingerprint after every turn,
exceptions (a crash in only one run is a difference), and the artefact listing: no gel.jsonl,
t3_reflection.jsonl, scheduler.jsonl, perf / shadow trace files or configured trace directory may appear
while the gate is off.  Per case the same world is also run with the gate ON; if that does not change the
bundle the case is counted as trivial (inertness would be vacuous).
"""
from __future__ import annotations

import copy
import os
import random

from vlib import par
from vlib.session import Session, unjson, chash

PID = "C02"
RULE = ("one evaluation = one (gate, subtree assignment, scenario) twin: B+A vs B without the subtree; non-trivial = "
        "switching the same gate ON changes the bundle of that scenario")
GATES = ["perf-master", "perf-master+parallel", "parallel", "gel", "quality", "hybrid", "reflection", "scheduler"]


def subtree(rng, gate, trace_dir):
    """(assignment with the gate OFF, assignment with the gate ON)."""
    from vlib.cfggen import gate_cfg, merge

    if gate == "perf-master":
        on = gate_cfg(rng, "perf", True)
        on["perf"]["enabled"] = True
        if rng.random() < 0.35:
            # the on-disk embedding-store reader, pointed at a store that really exists (written by check_case)
            on["perf"].setdefault("t2", {})
            on["perf"]["t2"].update({"embed_store_dtype": "fp32", "precompute_norms": True,
                                     "reader": {"partitions": {"enabled": True, "layout": rng.choice(["none", "owner_quarter"]), "path": os.path.join(os.path.dirname(trace_dir), "store")}}})
        off = copy.deepcopy(on)
        off["perf"]["enabled"] = False
        return off, on
    if gate == "perf-master+parallel":
        on = merge(gate_cfg(rng, "perf", True), {"perf": {"parallel": {"enabled": True, "t1": rng.random() < 0.7, "t2": rng.random() < 0.5, "agents": rng.random() < 0.3, "max_workers": rng.choice([2, 4])}}})
        off = copy.deepcopy(on)
        off["perf"]["enabled"] = False
        return off, on
    if gate == "parallel":
        on = {"perf": {"enabled": rng.random() < 0.5, "parallel": {"enabled": True, "t1": True, "t2": False, "agents": rng.random() < 0.5, "max_workers": rng.choice([2, 3, 8])}}}
        if rng.random() < 0.5:
            # the perf metrics gate open outside the subtree (kept in the stripped run too): the gated metrics blocks are written
            on["perf"].update({"enabled": True, "metrics": {"report_memory": True}})
        off = copy.deepcopy(on)
        off["perf"]["parallel"]["enabled"] = False
        off["perf"]["parallel"]["t2"] = rng.random() < 0.5  # the T2 fan-out flag too, behind the closed gate
        if rng.random() < 0.4:
            del off["perf"]["parallel"]["enabled"]  # the switch left out altogether: the gate is closed by default
        return off, on
    if gate == "gel":
        on = gate_cfg(rng, "gel", True)
        off = copy.deepcopy(on)
        off["graph"]["enabled"] = False
        return off, on
    if gate == "quality":
        on = gate_cfg(rng, "quality", True)
        on["t2"]["quality"]["trace_dir"] = trace_dir
        on["t2"]["quality"]["shadow"] = rng.random() < 0.6
        off = copy.deepcopy(on)
        off["t2"]["quality"]["enabled"] = False
        if rng.random() < 0.5:
            off = merge(off, {"perf": {"enabled": rng.random() < 0.5, "metrics": {"report_memory": rng.random() < 0.5}}})
            on = merge(on, {"perf": copy.deepcopy(off["perf"])})
        return off, on
    if gate == "hybrid":
        on = gate_cfg(rng, "hybrid", True)
        on["t2"]["hybrid"].update({"lambda_graph": 1.0, "edge_threshold": 0.0, "max_bonus": 10.0, "k_max": 128, "anchor_top_m": 8})
        off = copy.deepcopy(on)
        off["t2"]["hybrid"]["enabled"] = False
        # every boolean / numeric knob of the closed subtree away from its default
        off["t2"]["hybrid"]["use_graph"] = rng.random() < 0.5
        return off, on
    if gate == "reflection":
        on = gate_cfg(rng, "reflection", True)
        off = copy.deepcopy(on)
        off["t3"]["allow_reflection"] = False
        off["t3"]["reflection"]["log"] = rng.random() < 0.5  # every knob of the closed subtree away from its default
        return off, on
    if gate == "scheduler":
        on = gate_cfg(rng, "scheduler", True)
        on["scheduler"]["budgets"].update({"t1_pops": rng.choice([0, 1]), "t2_k": rng.choice([0, 1]), "t3_ops": rng.choice([0, 1])})
        if rng.random() < 0.6:
            on["scheduler"]["budgets"]["ops_reflection"] = rng.choice([0, 1, 5])
        if rng.random() < 0.3:
            on["scheduler"]["budgets"]["time_ms_reflection"] = rng.choice([1, 6000])
        on["scheduler"]["quantum_ms"] = rng.choice([1, 20])
        on["scheduler"]["budgets"]["wall_ms"] = rng.choice([20, 200])
        off = copy.deepcopy(on)
        off["scheduler"]["enabled"] = False
        return off, on
    raise KeyError(gate)


def strip_subtree(gate, cfg):
    c = copy.deepcopy(cfg)
    if gate in ("perf-master", "perf-master+parallel"):
        c.pop("perf", None)
    elif gate == "parallel":
        if "perf" in c:
            c["perf"].pop("parallel", None)
    elif gate == "gel":
        c.pop("graph", None)
    elif gate == "quality":
        c.get("t2", {}).pop("quality", None)
    elif gate == "hybrid":
        c.get("t2", {}).pop("hybrid", None)
    elif gate == "reflection":
        c.get("t3", {}).pop("reflection", None)
        c.get("t3", {}).pop("allow_reflection", None)
        if "scheduler" in c:
            (c["scheduler"].get("budgets") or {}).pop("time_ms_reflection", None)
            (c["scheduler"].get("budgets") or {}).pop("ops_reflection", None)
    elif gate == "scheduler":
        c.pop("scheduler", None)
    return c


FORBIDDEN = {"gel": ["gel.jsonl"], "reflection": ["t3_reflection.jsonl"], "scheduler": ["scheduler.jsonl"],
             "perf-master": ["perf", "-perf.jsonl", "rq_traces"], "perf-master+parallel": ["perf", "-perf.jsonl", "rq_traces"], "quality": ["rq_traces", "quality"], "hybrid": [], "parallel": []}


def gen_case(rng, gate):
    from vlib.world import gen_world
    from vlib.cfggen import base_cfg, gen_turns, merge, gate_cfg

    world = gen_world(rng, ngraphs=(2, 3), neps=(8, 20), agents=("A", "B"))
    if rng.random() < 0.35:
        # memories without words (empty / blank text): they are hits all the same
        for e_ in rng.sample(world["eps"], min(len(world["eps"]), rng.randint(1, 3))):
            e_["text_was"] = e_["text"]
            e_["text"] = rng.choice(["", "   ", "\t"])
            e_["vec"] = "enc:" + (e_.get("text_was") or "hello world moon")  # embedded from other words: retrievable
    base = base_cfg(rng)
    base["t2"]["sim_threshold"] = -1.0
    base["t2"]["k_retrieval"] = max(4, base["t2"]["k_retrieval"])
    base["t2"]["owner_scope"] = "any"
    # other gates may be on in the base (inertness must hold for all validated bases)
    for g2 in ("gel", "hybrid", "reflection"):
        if rng.random() < (0.5 if (g2 == "reflection" and gate == "scheduler") else 0.3) and g2 != gate:
            sub = gate_cfg(rng, g2, True)
            if g2 == "reflection":
                sub.pop("scheduler", None)  # budgets stay at their defaults in the base
            base = merge(base, sub)
    if gate in ("gel", "quality", "hybrid", "reflection", "scheduler") and rng.random() < 0.3:
        # the perf metrics gate open in the base: the gated metrics blocks of the canonical records are written
        base = merge(base, {"perf": {"enabled": True, "metrics": {"report_memory": True}}})
    cache_watch = gate == "hybrid" and rng.random() < 0.4
    if cache_watch:
        # the graph layer learning in the base, the perf metrics gate open (cache counters are written) and - below - one
        # question asked again and again at one logical time: what the stage caches key on becomes visible in the records
        base = merge(base, gate_cfg(rng, "gel", True))
        base = merge(base, {"perf": {"enabled": True, "metrics": {"report_memory": True}}})
        if rng.random() < 0.5:
            base["t4"]["enabled"] = False
    turns = gen_turns(rng, world, n=(2, 4), agents=("A", "B"), plans=False)
    for t in turns:
        nd = rng.choice([1, 2, 3])
        t["plan"] = {"ops": [{"kind": "Speak"}, {"kind": "EditGraph"}], "deltas": [["node", f"n:{rng.choice('abcd')}", "weight", rng.choice([0.1, -0.2, 0.3]), 1] for _ in range(nd)],
                     "reflection": True}
        if rng.random() < 0.4:
            t["plan"] = None if gate not in ("reflection",) else t["plan"]
    if cache_watch or rng.random() < (0.5 if gate.startswith("perf") else 0.2):
        # the same question asked again by the same agent at the same logical time: the stage caches serve hits, so the
        # gated code on the hit paths runs too
        for t in turns[1:]:
            t["agent"], t["text"], t["now_ms"] = turns[0]["agent"], turns[0]["text"], turns[0]["now_ms"]
        if len(turns) < 3:
            turns.append(dict(copy.deepcopy(turns[-1]), turn=len(turns) + 1))
        base["t1"]["cache"] = {"enabled": True}
        base["t2"]["cache"] = {"enabled": True}
    return {"gate": gate, "world": world, "base": base, "turns": turns, "seed": rng.randint(0, 10 ** 9),
            # turns handed to the agent batch driver (batches of one) instead of run_turn: the driver has its own gate predicate
            "via_driver": gate == "parallel" and rng.random() < 0.5,
            # the plan's request for reflection arrives through the flag the LLM planner path stashes on the state
            "stash_reflection_flag": gate == "reflection" and rng.random() < 0.4}


def run_cfg(cfg, case, trace_dir, sess):
    """Returns (bundle, fingerprints, artefact names, exception summary) or None if the config is rejected."""
    from vlib.turn import TurnEnv
    from vlib.world import state_fingerprint
    from vlib import bootstrap

    bootstrap.reset_globals()
    try:
        env = TurnEnv(copy.deepcopy(cfg), copy.deepcopy(case["world"]))
    except Exception as ex:
        return None
    cwd0 = os.getcwd()
    with env:
        from clematis.memory.index import InMemoryIndex
        env.state["memory_index"] = InMemoryIndex()  # where reflection writes; part of the state fingerprint
        os.chdir(env.base)  # relative artefact paths (./logs, ./.data) land inside the private directory
        try:
            fps = []
            if case.get("stash_reflection_flag"):
                env.state["_planner_reflection_flag"] = True
            for t in case["turns"]:
                env.run(t["agent"], t["text"], t["turn"], now_ms=t["now_ms"], plan=t.get("plan"), via_driver=bool(case.get("via_driver")))
                fp = state_fingerprint(env.state)
                fp.pop("keys", None)
                fps.append(fp)
            b = env.bundle()
            names = []
            for root, dirs, files in os.walk(env.base):
                for n in files + dirs:
                    names.append(os.path.relpath(os.path.join(root, n), env.base))
            if os.path.isdir(trace_dir) and os.listdir(trace_dir):
                names.append("<trace_dir>/" + ",".join(sorted(os.listdir(trace_dir))[:3]))
            tbs = [r.get("tb", "")[-300:] for r in env.results if r.get("exc")]
        finally:
            os.chdir(cwd0)
    return b, fps, names, tbs


def check_case(case, sess: Session):
    from vlib.turn import diff_bundles, diff_paths
    from vlib.cfggen import merge
    from vlib.harness import tmpdir

    rng = random.Random(case["seed"])
    gate = case["gate"]
    with tmpdir("c02t_") as trace_dir:
        off_sub, on_sub = subtree(rng, gate, os.path.join(trace_dir, "q"))
        store_path = ((((off_sub.get("perf") or {}).get("t2") or {}).get("reader") or {}).get("partitions") or {}).get("path")
        if store_path:
            # a (stale) embedding store: some of the world's episodes under their ids plus foreign ones
            try:
                import numpy as np
                from clematis.engine.util.embed_store import write_shard
                from clematis.adapters.embeddings import DeterministicEmbeddingAdapter
                enc = DeterministicEmbeddingAdapter(dim=32)
                eps_ = case["world"]["eps"][::2]
                ids_ = [e["id"] for e in eps_] + [f"old{i}" for i in range(4)]
                vecs_ = [enc.encode([e["text"]])[0] for e in eps_] + [enc.encode([f"hello world reply {i}"])[0] for i in range(4)]
                write_shard(os.path.join(store_path, "shard-000"), ids_, np.stack(vecs_).astype(np.float32), dtype="fp32", precompute_norms=True)
                sess.count("cases_with_an_embedding_store_on_disk")
            except Exception as ex:
                sess.inconclusive_because(f"could not write the embedding store: {type(ex).__name__}: {ex}")
        cfg_a = merge(case["base"], off_sub)
        cfg_b = strip_subtree(gate, cfg_a)
        cfg_on = merge(case["base"], on_sub)
        ra = run_cfg(cfg_a, case, os.path.join(trace_dir, "q"), sess)
        rb = run_cfg(cfg_b, case, os.path.join(trace_dir, "q"), sess)
        if ra is None or rb is None:
            sess.count("cfg_rejected_by_validator")
            return
        sess.evaluations += 1
        sess.count("gate_twins")
        sess.count("gate:" + gate)
        sess.sample({"gate": gate, "assignment_in_gated_subtree": off_sub, "turns": case["turns"][:2], "episodes": len(case["world"]["eps"]), "graphs": len(case["world"]["graphs"])})
        ba, fa, na, ta = ra
        bb, fb, nb, tb = rb
        tcase = {"gate": gate, "world": case["world"], "base": case["base"], "turns": case["turns"], "seed": case["seed"], "assignment": off_sub}
        par_t2 = bool((((off_sub.get("perf") or {}).get("parallel") or {}).get("t2")) and ((off_sub.get("perf") or {}).get("parallel") or {}).get("enabled"))
        if ba != bb:
            paths = diff_paths(ba, bb)
            mech = f"{gate}:gate-off-subtree-changes-artefacts"
            if ta and any("order_key" in x or "NoneType" in x for x in ta) and par_t2:
                mech = "perf-master-off:perf.parallel.t2-reaches-T2-shard-fan-out(TypeError)"
            elif ba["excs"] != bb["excs"]:
                mech = f"{gate}:exception-only-with-subtree"
            elif gate == "scheduler" and paths and all(p_.startswith("t3_reflection.jsonl:") for p_ in paths) and \
                    any(k in (off_sub["scheduler"].get("budgets") or {}) for k in ("ops_reflection", "time_ms_reflection")):
                mech = "scheduler-off:reflection-budgets-under-scheduler.budgets-take-effect"
            sess.violation(mech, tcase, {"paths": paths[:8], "diffs": diff_bundles(ba, bb)[:3], "tb": (ta or [""])[0][-200:]})
        elif fa != fb:
            idx = next(i for i, (x, y) in enumerate(zip(fa, fb)) if x != y)
            keys = [k for k in fa[idx] if fa[idx].get(k) != fb[idx].get(k)]
            mech = f"{gate}:gate-off-subtree-changes-state"
            if gate == "scheduler" and set(keys) <= {"mem2"} and any(k in (off_sub["scheduler"].get("budgets") or {}) for k in ("ops_reflection", "time_ms_reflection")):
                mech = "scheduler-off:reflection-budgets-under-scheduler.budgets-take-effect"
            sess.violation(mech, tcase, {"turn": idx, "fields": keys})
        forbidden = list(FORBIDDEN[gate])
        if gate == "quality":
            # shadow tracing is a documented feature with its own triple gate (perf.enabled && perf.metrics.report_memory &&
            # t2.quality.shadow, quality itself disabled): its trace file is an artefact of *that* gate, so it is only
            # forbidden while the perf gate is closed
            pf = cfg_a.get("perf") or {}
            if bool(pf.get("enabled")) and bool((pf.get("metrics") or {}).get("report_memory")) and bool(cfg_a["t2"]["quality"].get("shadow")):
                forbidden = []
                sess.count("quality_shadow_trace_allowed(perf gate open)")
        bad = [n for n in na if any(f in n for f in forbidden)]
        if bad:
            sess.violation(f"{gate}:artefact-of-gated-feature-written", tcase, bad[:5])
        extra = sorted(set(na) - set(nb))
        if gate == "quality" and not forbidden:
            extra = [n for n in extra if "rq_traces" not in n and "<trace_dir>" not in n]
        if extra and not bad:
            sess.violation(f"{gate}:extra-files-with-subtree", tcase, extra[:5])
        # non-triviality: the gate ON must matter for this scenario
        ron = run_cfg(cfg_on, case, os.path.join(trace_dir, "q"), sess)
        if ron is not None:
            bon, fon, non, _ = ron
            if bon != bb or fon != fb or set(non) != set(nb):
                sess.nontrivial.add(chash((gate, case["seed"])))
                sess.count("twins_where_gate_on_changes_outcome")
                sess.count("gate_on_matters:" + gate)


def _chunk(args):
    tier, seed, i, n = args
    from vlib import bootstrap

    bootstrap.init()
    rng = random.Random(f"C02/{seed}/{i}")
    sess = Session.worker(PID, tier, seed)
    for j in range(n):
        try:
            check_case(gen_case(rng, GATES[(i + j) % len(GATES)]), sess)
        except Exception as ex:
            import traceback
            sess.inconclusive_because(f"harness error {type(ex).__name__}: {ex} @ {traceback.format_exc()[-600:]}")
    return sess.export()


def main(tier: str, seed: int):
    sess = Session(PID, tier, seed, level="exploration", rule=RULE)
    sess.assume("gates and their switches are those the code defines: perf.enabled, perf.parallel.enabled, graph.enabled, t2.quality.enabled, t2.hybrid.enabled, t3.allow_reflection, scheduler.enabled")
    sess.assume("non-canonical t3*/gel streams are compared with their ms timings masked; everything else bytewise")
    total = 280 if tier == "quick" else 12000
    nchunks = par.NWORK
    per = max(1, total // nchunks)
    for ex in par.pmap(_chunk, [(tier, seed, i, per) for i in range(nchunks)]):
        sess.merge(ex)
    sess.require("gate_twins", 60)
    for g in GATES:
        sess.require("gate:" + g, 4)
    sess.require("twins_where_gate_on_changes_outcome", 30)
    sess.finish()


def replay(body, tier, seed):
    sess = Session(PID, tier, seed, rule=RULE)
    sess.replay_mode = True
    check_case(unjson(body["case"]), sess)
    return sess.finish(exit_process=False)
