"""C13 - Planning and speaking stay within caps; untrusted plans are sanitised.

Monitors:
  (1) `deliberate(bundle)` on generated bundles: bundle deep-copy unchanged, repeat call equal, at most
      min(ops cap, slice cap) ops, Speak first when the cap allows one, intent per the threshold table
      (recomputed independently), RequestRetrieve only below tau_low, EditGraph only at/above it;
  (2) `rag_once`: retrieve function called at most once (never when already used), refined plan within
      the caps, inputs unchanged;
  (3) `speak` / `llm_speak` with adversarial templates, styles and adapters: whitespace-token count of
      the utterance <= its budget, metrics consistent, no exception escapes;
  (4) `parse_and_validate` on a grammar of hostile strings + hypothesis text: every call wrapped (any
      exception is a violation); whatever is accepted must be a single JSON object (whole text or one
      fenced block) inside the documented limits - re-parsed with json.loads and re-validated with
      jsonschema against an independently written schema;
  (5) real turns: call counter on the orchestrator's t2_semantic hook (<= 2 per turn: retrieval + one
      refinement; 1 when max_rag_loops=0), utterance tokens vs t3.tokens.
"""
from __future__ import annotations

import copy
import json
import os
import random
import string
from types import SimpleNamespace as NS

from vlib import par
from vlib.session import Session, unjson, chash

PID = "C13"
RULE = ("one evaluation = one deliberate/rag_once/speak/llm_speak/sanitiser call or one real turn; non-trivial = a cap or "
        "threshold actually bound (ops truncated, utterance truncated, sanitiser accepted or rejected on a limit)")
WORDS = ["alpha", "beta", "γάμμα", "delta", "naïve", "x", "tree", "río"]


# ------------------------------------------------------------------------------ bundles
def gen_bundle(rng):
    tau_low = rng.choice([0.4, 0.0, 0.2, 0.5, 1.0])
    tau_high = rng.choice([0.8, tau_low, 1.0, max(tau_low, 0.6)])
    pol = {}
    if rng.random() < 0.7:
        pol = {"tau_high": tau_high, "tau_low": tau_low, "epsilon_edit": rng.choice([0.1, 0.0, 0.5, 1.0])}
    th = float(pol.get("tau_high", 0.8))
    tl = float(pol.get("tau_low", 0.4))
    s_max = rng.choice([0.0, tl, th, tl - 1e-9, th - 1e-9, tl + 1e-9, th + 1e-9, 0.39, 0.41, 0.79, 0.81, 1.0, -0.5, rng.random()])
    nodes = []
    for i in range(rng.choice([0, 0, 1, 3, 8, 40])):
        nodes.append({"id": f"n{rng.randint(0, 50)}", "label": rng.choice(WORDS + [None]), "delta": rng.choice([0.0, 0.05, 0.1, 0.0999999, 0.5, -0.5, 1.0, "bad"])})
    ops_cap = rng.choice([0, 1, 2, 3, 8, 16])
    sl = {}
    if rng.random() < 0.5:
        sl = {"t3_ops": rng.choice([0, 1, 2, 3, 16])}
    b = {"version": "t3-bundle-v1", "now": rng.choice(["2023-11-14T00:00:00Z", "2023-11-14T00:00:00Z", "2024-02-29T12:00:00Z", "1970-01-01T00:00:00Z", ""]),
         "agent": {"id": "A", "caps": {"ops": ops_cap, "tokens": rng.choice([1, 8, 256])}, "style_prefix": rng.choice(["", "calm"])},
         "world": {"hot_labels": [], "k": 0},
         "t1": {"touched_nodes": nodes, "metrics": {}},
         "t2": {"retrieved": [], "metrics": {"sim_stats": {"max": s_max, "mean": 0.0}}},
         "text": {"input": rng.choice(["hello", "", "what is a tree"]), "labels_from_t1": rng.sample(WORDS, rng.randint(0, 3)) if rng.random() < 0.6 else []},
         "cfg": {"t3": {"tokens": rng.choice([1, 16, 256, 512]), "max_rag_loops": 1, "policy": pol} if pol or rng.random() < 0.5 else {"tokens": 256},
                 "t2": {"owner_scope": rng.choice(["any", "agent", "world", "bogus"]), "k_retrieval": rng.choice([1, 2, 64]), **rng.choice([{"sim_threshold": 0.3}, {"sim_threshold": 0.3}, {"sim_threshold": 0.0}, {"sim_threshold": -1.0}, {"sim_threshold": 0.75}, {}])}},
         "slice_caps": sl}
    if rng.random() < 0.1:
        del b["slice_caps"]
    if rng.random() < 0.05:
        del b["now"]
    return b


def intent_table(s_max, th, tl, labels):
    if s_max >= th:
        return "summary"
    if s_max >= tl:
        return "assertion" if labels else "ack"
    return "question"


def plan_sig(p):
    return [repr(op) for op in p.ops], p.reflection, repr(p.deltas), repr(p.request_retrieve)


def check_deliberate(b, sess):
    from clematis.engine.stages.t3.policy import deliberate

    b0 = copy.deepcopy(b)
    try:
        p = deliberate(b)
        p2 = deliberate(copy.deepcopy(b0))
    except Exception as ex:
        sess.violation("deliberate-raises:" + type(ex).__name__, {"bundle": b0}, repr(ex)[:200])
        return None
    sess.evaluations += 1
    sess.count("deliberate_calls")
    sess.sample({"kind": "deliberate", "agent": b0["agent"], "slice_caps": b0.get("slice_caps"), "s_max": b0["t2"]["metrics"]["sim_stats"]["max"], "policy": (b0["cfg"].get("t3") or {}).get("policy"),
                 "ops": [getattr(o, "kind", None) for o in p.ops]})
    case = {"bundle": b0}
    if b != b0:
        sess.violation("deliberate-mutates-bundle", case, None)
    if plan_sig(p) != plan_sig(p2):
        sess.violation("deliberate-not-deterministic", case, [plan_sig(p), plan_sig(p2)])
    base = int(b0["agent"]["caps"]["ops"])
    sl = (b0.get("slice_caps") or {}).get("t3_ops")
    cap = min(base, int(sl)) if sl is not None else base
    ops = list(p.ops)
    if len(ops) > max(cap, 0):
        sess.violation("ops-exceed-cap", case, {"ops": len(ops), "cap": cap})
    pol = (b0["cfg"].get("t3") or {}).get("policy") or {}
    th, tl = float(pol.get("tau_high", 0.8)), float(pol.get("tau_low", 0.4))
    s_max = float(b0["t2"]["metrics"]["sim_stats"]["max"])
    labels = list(b0["text"]["labels_from_t1"]) or [str(n.get("label", n.get("id"))) for n in b0["t1"]["touched_nodes"]]
    labels = sorted({str(x) for x in labels})[:5]
    if cap >= 1:
        if not ops or getattr(ops[0], "kind", None) != "Speak":
            sess.violation("first-op-not-speak", case, [getattr(o, "kind", None) for o in ops])
        else:
            exp = intent_table(s_max, th, tl, labels)
            if ops[0].intent != exp:
                sess.violation("intent-not-per-thresholds", case, {"got": ops[0].intent, "exp": exp, "s_max": s_max, "th": th, "tl": tl})
            if list(ops[0].topic_labels) != labels:
                sess.violation("speak-labels", case, {"got": ops[0].topic_labels, "exp": labels})
            if int(ops[0].max_tokens) != int((b0["cfg"].get("t3") or {}).get("tokens", 256)):
                sess.violation("speak-token-budget-not-config", case, ops[0].max_tokens)
    kinds = [getattr(o, "kind", None) for o in ops]
    if kinds.count("Speak") > 1 or kinds.count("RequestRetrieve") > 1 or kinds.count("EditGraph") > 1:
        sess.violation("duplicate-op-kinds", case, kinds)
    if "RequestRetrieve" in kinds and not (s_max < tl):
        sess.violation("retrieve-at-or-above-low-threshold", case, {"s_max": s_max, "tl": tl})
    if "EditGraph" in kinds and not (s_max >= tl):
        sess.violation("edit-below-low-threshold", case, {"s_max": s_max, "tl": tl})
    if s_max < tl and cap >= 2 and "RequestRetrieve" not in kinds:
        sess.violation("no-retrieve-below-low-threshold", case, kinds)
    for o in ops:
        if getattr(o, "kind", None) == "RequestRetrieve":
            # the request is a function of THIS bundle: query, owner scope, k and the hints (clock, threshold)
            cfg_t2 = (b0["cfg"].get("t2") or {})
            owner = str(cfg_t2.get("owner_scope", "any"))
            exp_req = {"query": b0.get("text", {}).get("input", ""), "owner": owner if owner in ("agent", "world", "any") else "any",
                       "k": max(1, int(cfg_t2.get("k_retrieval", 64)) // 2),
                       "hints": {"now": b0.get("now", ""), "sim_threshold": float(cfg_t2.get("sim_threshold", 0.3))}}
            got_req = {"query": o.query, "owner": o.owner, "k": o.k, "hints": dict(o.hints or {})}
            sess.count("retrieve_requests_checked")
            if got_req != exp_req:
                sess.violation("retrieve-request-not-a-function-of-the-bundle", case, {"got": got_req, "exp": exp_req})
        if getattr(o, "kind", None) == "EditGraph":
            ids = [e.get("id") for e in o.edits]
            if ids != sorted(ids) or len(o.edits) > max(cap - 1, 0) * 4 or o.cap > max(cap - 1, 0) * 4:
                sess.violation("editgraph-cap-or-order", case, {"ids": ids, "cap": o.cap})
    if len(ops) == max(cap, 0) and cap < 2:
        sess.nontrivial.add(chash(("ops", cap, s_max)))
    if s_max in (th, tl):
        sess.nontrivial.add(chash(("thr", s_max, th, tl)))
    return p


def check_rag(b, p, rng, sess):
    from clematis.engine.stages.t3.legacy import rag_once

    calls = []

    def retrieve(payload):
        calls.append(copy.deepcopy(payload))
        n = rng.randint(0, 4)
        return {"retrieved": [{"id": f"ep{i}", "score": rng.choice([0.1, 0.5, 0.9, 1.0]), "owner": "A", "quarter": ""} for i in range(n)], "metrics": {}}

    b0, sig0 = copy.deepcopy(b), plan_sig(p)
    used = rng.random() < 0.3
    try:
        p2, m = rag_once(b, p, retrieve, already_used=used)
    except Exception as ex:
        sess.violation("rag_once-raises:" + type(ex).__name__, {"bundle": b0, "already_used": used}, repr(ex)[:200])
        return
    sess.evaluations += 1
    sess.count("rag_once_calls")
    case = {"bundle": b0, "already_used": used}
    has_rr = any(getattr(o, "kind", None) == "RequestRetrieve" for o in p.ops)
    if len(calls) > 1 or (used and calls) or (not has_rr and calls):
        sess.violation("rag-more-than-one-retrieval", case, {"calls": len(calls), "already_used": used, "has_rr": has_rr})
    if has_rr and not used and len(calls) != 1:
        sess.violation("rag-retrieval-not-performed", case, len(calls))
    if calls:
        sess.count("rag_refinements_performed")
    if b != b0 or plan_sig(p) != sig0:
        sess.violation("rag_once-mutates-inputs", case, None)
    base = int(b0["agent"]["caps"]["ops"])
    sl = (b0.get("slice_caps") or {}).get("t3_ops")
    cap = min(base, int(sl)) if sl is not None else base
    if calls and len(p2.ops) > max(cap, 0):
        sess.violation("rag-ops-exceed-cap", case, {"ops": len(p2.ops), "cap": cap})
    if bool(m.get("rag_used")) != bool(calls):
        sess.violation("rag-metrics", case, m)


# ------------------------------------------------------------------------------ speaking
class Adapter:
    def __init__(self, mode, rng):
        self.mode, self.rng, self.name = mode, rng, "Adv"
        self.default_temperature = 0.2

    def generate(self, prompt, max_tokens=0, temperature=0.0):
        m = self.mode
        if m == "raise":
            raise RuntimeError("boom")
        if m == "long":
            return NS(text=" ".join(["w"] * (max_tokens * 3 + 50)), tokens=99999, truncated=False)
        if m == "dict":
            return {"text": "a\tb\nc  d " * 200, "tokens": 5, "truncated": False}
        if m == "none":
            return NS(text=None, tokens=None, truncated=None)
        if m == "ws":
            return NS(text=" \n\t x   y   z " * 100, tokens=3, truncated=False)
        if m == "emptydict":
            return {}
        return NS(text="ok then", tokens=2, truncated=False)


def check_speak(rng, sess):
    from clematis.engine.stages.t3 import dialogue as D
    from clematis.engine.types import Plan, SpeakOp, EditGraphOp

    tpl = rng.choice(["summary: {labels}. next: {intent}", "{style_prefix}| {labels} {snippets} {snippets_text} {identity}", "{labels", "{unknown} x",
                      "{0} {labels}", "", "   ", "{labels!r:>300}", "word " * 400, "{labels}\n\n{intent}\t{snippets}", "{identity} " * 30])
    labels = rng.sample(WORDS + ["two words", "tab\tbed", ""], rng.randint(0, 5))
    budget = rng.choice([0, 1, 2, 3, 8, 64, 512])
    caps_tokens = rng.choice([1, 4, 256])
    ops = []
    if rng.random() < 0.85:
        ops.append(SpeakOp(kind="Speak", intent=rng.choice(["ack", "question", "summary"]), topic_labels=labels, max_tokens=budget))
    if rng.random() < 0.3:
        ops.insert(0, EditGraphOp(kind="EditGraph", edits=[], cap=0))
    plan = Plan(version="t3-plan-v1", ops=ops)
    retrieved = [{"id": f"e{i}", "text": " ".join(rng.choice(WORDS) for _ in range(rng.randint(0, 60))), "score": 0.5, "owner": "A"} for i in range(rng.randint(0, 5))]
    db = {"agent": {"style_prefix": rng.choice(["", "calm", "two words", "x" * 50]), "caps": {"tokens": caps_tokens}},
          "dialogue": {"template": tpl, "include_top_k_snippets": rng.choice([0, 1, 2, 5])}, "retrieved": retrieved,
          "text": {"labels_from_t1": rng.sample(WORDS, rng.randint(0, 3)), "input": "hi"}, "now": "x"}
    if rng.random() < 0.2:
        db["dialogue"]["identity"] = "id " * 100
    eff = budget if (ops and getattr(_first_speak(ops), "max_tokens", 0)) else caps_tokens
    if not _first_speak(ops):
        eff = caps_tokens
    db0 = copy.deepcopy(db)
    case = {"template": tpl, "budget": budget, "caps_tokens": caps_tokens, "has_speak": bool(_first_speak(ops)), "labels": labels, "style": db["agent"]["style_prefix"]}
    for which in ("speak", "llm"):
        mode = rng.choice(["raise", "long", "dict", "none", "ws", "ok", "emptydict"])
        try:
            if which == "speak":
                u, m = D.speak(db, plan)
            else:
                u, m = D.llm_speak(db, plan, Adapter(mode, rng))
        except Exception as ex:
            sess.violation(which + "-raises:" + type(ex).__name__, {**case, "adapter": mode}, repr(ex)[:200])
            continue
        sess.evaluations += 1
        sess.count(which + "_calls")
        n = len((u or "").split())
        if n > max(eff, 0):
            sess.violation("utterance-exceeds-token-budget:" + which, {**case, "adapter": mode}, {"tokens": n, "budget": eff, "utter": (u or "")[:120]})
        if int(m.get("tokens", -1)) != n:
            sess.violation("token-metric-differs-from-utterance:" + which, {**case, "adapter": mode}, {"metric": m.get("tokens"), "actual": n})
        if m.get("truncated"):
            sess.count("utterances_truncated")
            sess.nontrivial.add(chash((which, tpl, eff, mode)))
        if db != db0:
            sess.violation(which + "-mutates-bundle", case, None)


def _first_speak(ops):
    for o in ops:
        if getattr(o, "kind", None) == "Speak":
            return o
    return None


# ------------------------------------------------------------------------------ sanitiser
MY_SCHEMA = {"type": "object", "required": ["plan", "rationale"], "additionalProperties": False,
             "properties": {"plan": {"type": "array", "maxItems": 16, "items": {"type": "string", "minLength": 1, "maxLength": 200, "pattern": r"\S"}},
                            "rationale": {"type": "string", "minLength": 1, "maxLength": 2000}, "reflection": {"type": "boolean"}}}


def gen_text(rng):
    def s(n):
        return "".join(rng.choice("ab cé中\"\\\n") for _ in range(n))

    k = rng.randint(0, 30)
    plan = [rng.choice(["step", "x" * 200, "x" * 201, "", " ", "\t", "ok ", 5, None, ["n"], {"a": 1}]) for _ in range(rng.choice([0, 1, 3, 16, 17]))]
    r = rng.random()
    if r < 0.4:
        plan = [("p%d" % i) for i in range(rng.choice([0, 1, 16, 17]))]
    elif r < 0.6:
        plan = [rng.choice(["x" * 200, "x" * 201, " " + "x" * 200, "x" * 200 + " ", "é" * 200, "step"]) for _ in range(rng.choice([1, 2, 16]))]
    obj = {"plan": plan, "rationale": rng.choice(["why", "why", "r" * 2000, "r" * 2001, " " + "r" * 2000, "", 7, None, " ", ["why"]])}
    if rng.random() < 0.5:
        obj["reflection"] = rng.choice([True, False, 0, 1, 2, "true", "no", "maybe", None, [], 1.0, "T", " yes "])
    if rng.random() < 0.15:
        obj[rng.choice(["extra", "Plan", ""])] = 1
    if rng.random() < 0.1:
        del obj[rng.choice(["plan", "rationale"])]
    body = json.dumps(obj, ensure_ascii=rng.random() < 0.5)
    forms = [body, "```json\n" + body + "\n```", "```\n" + body + "\n```", "```python\n" + body + "\n```", "```JSON\n" + body + "\n```", "```jsonc \n" + body + "```",
             "Here is the plan: " + body, body + " thanks", "```json\n" + body + "\n```\ntrailing", "```json\n```json\n" + body + "\n```\n```", "  \n" + body + "\n  ",
             "[" + body + "]", body + body, "﻿" + body, body.replace("{", "{\"plan\": [], ", 1), "NaN", "Infinity", "null", "true", "123", "\"str\"", "", " ", "```", "``````", "```\n```",
             "{" * 2000, "[" * 5000, "9" * 5000, "{\"plan\": [], \"rationale\": " + "9" * 5000 + "}", body + "\x00", "\x00" + body, "{\"plan\":[\"\ud800\"],\"rationale\":\"x\"}",
             "{\"plan\": [NaN], \"rationale\": \"x\"}", "{\"plan\": [\"a\"], \"rationale\": \"x\", \"reflection\": NaN}", "x" * 20000, "x" * 20001, " " * 19990 + body,
             "```json\n" + " " * 20000 + "\n```", "{\"plan\": [\"a\"], \"rationale\": \"" + "r" * 19950 + "\"}"]
    t = rng.choice(forms)
    if rng.random() < 0.05:
        t = s(k)
    return t


def my_accepts(text):
    """Independent re-parse: the (whole | single fenced block) text must be one JSON object in the limits."""
    s = text.strip()
    cand = s
    if s.startswith("```") and s.endswith("```") and "\n" in s:
        first = s.find("\n")
        lang = s[3:first].strip().lower()
        if lang not in ("", "json", "jsonc"):
            return False, "lang"
        body = s[first + 1:-3].strip()
        cand = body if body else s
    try:
        obj = json.loads(cand)
    except Exception:
        return False, "json"
    if not isinstance(obj, dict):
        return False, "type"
    return True, obj


def check_sanitiser(text, sess):
    from clematis.engine.policy.sanitize import parse_and_validate
    from clematis.engine.policy.json_schemas import PLANNER_V1
    import jsonschema

    try:
        ok, out = parse_and_validate(text, PLANNER_V1)
    except BaseException as ex:
        sess.violation("sanitiser-raises:" + type(ex).__name__, {"text": text[:300], "len": len(text)}, repr(ex)[:200])
        return
    sess.evaluations += 1
    sess.count("sanitiser_calls")
    if not isinstance(ok, bool):
        sess.violation("sanitiser-return-shape", {"text": text[:300]}, repr(ok))
        return
    if ok:
        sess.count("sanitiser_accepted")
        case = {"text": text[:400], "len": len(text)}
        if len(text) > 20000:
            sess.violation("sanitiser-accepted-oversize-text", case, len(text))
        a, obj = my_accepts(text)
        if not a:
            sess.violation("sanitiser-accepted-non-single-json-object", case, obj)
            return
        strict = dict(obj)
        if "reflection" in strict and not isinstance(strict["reflection"], bool):
            strict["reflection"] = bool(out.get("reflection"))  # documented boolean-like coercion
        try:
            jsonschema.validate(strict, MY_SCHEMA)
        except jsonschema.ValidationError as ve:
            sess.violation("sanitiser-accepted-outside-limits", case, str(ve.message)[:200])
            return
        try:
            jsonschema.validate(out, MY_SCHEMA)
        except jsonschema.ValidationError as ve:
            sess.violation("sanitiser-output-outside-limits", case, str(ve.message)[:200])
        if out.get("plan") != obj.get("plan") or out.get("rationale") != obj.get("rationale"):
            sess.violation("sanitiser-output-differs-from-input-object", case, None)
        if len(obj.get("plan", [])) == 16 or len(obj.get("rationale", "")) == 2000 or any(len(x) == 200 for x in obj.get("plan", [])):
            sess.nontrivial.add(chash(("acc-limit", len(obj["plan"]), len(obj["rationale"]))))
    else:
        sess.count("sanitiser_rejected")
        if not isinstance(out, str):
            sess.violation("sanitiser-reject-reason-not-string", {"text": text[:200]}, repr(out)[:100])
        if "too" in str(out) or "invalid" in str(out):
            sess.nontrivial.add(chash(("rej", str(out)[:40])))


def check_llm_planner(text, sess):
    """plan_with_llm end to end: a fixture adapter replays hostile completions; the planner output must be the
    fallback or an object inside the documented limits, and nothing may escape."""
    import clematis.engine.stages.t3.policy as pol
    import clematis.adapters.llm as llm
    from vlib.harness import tmpdir
    import jsonschema

    ctx = NS(turn_id=3, agent_id="A", cfg={})
    with tmpdir("c13llm_") as d:
        fx = os.path.join(d, "fx.jsonl")
        key = llm._prompt_hash(pol.make_planner_prompt(ctx))
        with open(fx, "w", encoding="utf-8") as f:
            f.write(json.dumps({"prompt_hash": key, "completion": text}) + "\n")
        cfg = {"t3": {"backend": "llm", "llm": {"provider": "fixture", "max_tokens": 100000, "fixtures": {"enabled": True, "path": fx}}}}
        state = NS(logs=[])
        old_ci = os.environ.get("CI")
        os.environ["CI"] = "true"
        try:
            out = pol.plan_with_llm(ctx, state, cfg)
            ro = pol.run_policy({"name": "llm", "meta": {}}, {}, cfg, ctx, state=state)
        except BaseException as ex:
            sess.violation("llm-planner-raises:" + type(ex).__name__, {"text": text[:300], "len": len(text)}, repr(ex)[:200])
            return
        finally:
            if old_ci is None:
                os.environ.pop("CI", None)
            else:
                os.environ["CI"] = old_ci
    sess.evaluations += 1
    sess.count("llm_planner_calls")
    case = {"text": text[:300], "len": len(text)}
    if not isinstance(out, dict) or "plan" not in out or "rationale" not in out:
        sess.violation("llm-planner-output-shape", case, repr(out)[:200])
        return
    if out.get("rationale", "").startswith("fallback:") and out["plan"] == []:
        sess.count("llm_planner_fallbacks")
        return
    sess.count("llm_planner_accepted")
    try:
        jsonschema.validate({k: v for k, v in out.items()}, MY_SCHEMA)
    except jsonschema.ValidationError as ve:
        sess.violation("llm-planner-accepted-plan-outside-limits", case, str(ve.message)[:200])
    if list(ro.get("plan", [])) != list(out["plan"]):
        sess.violation("run_policy-differs-from-planner", case, None)
    if bool(getattr(state, "_planner_reflection_flag", False)) != bool(out.get("reflection", False)):
        sess.violation("planner-reflection-flag-not-stashed", case, None)


# ------------------------------------------------------------------------------ real turns
def check_turns(rng, sess):
    import clematis.engine.orchestrator as orch
    import clematis.engine.orchestrator.core as core
    from vlib.turn import TurnEnv
    from vlib.world import gen_world
    from vlib.harness import patched
    from vlib import bootstrap

    bootstrap.reset_globals()
    world = gen_world(rng, neps=(0, 10))
    tokens = rng.choice([1, 2, 5, 256])
    loops = rng.choice([0, 1, 1, 2, 5])  # > 1 is outside the validator's enumeration: set on the live config after validation
    cfg = {"t3": {"tokens": tokens, "max_rag_loops": min(loops, 1), "max_ops_per_turn": rng.choice([1, 2, 3, 8])},
           "t2": {"sim_threshold": rng.choice([-1.0, 0.0, 0.3]), "k_retrieval": rng.choice([1, 4, 10])},
           "t4": {"cache": {"enabled": rng.random() < 0.5}}}
    if rng.random() < 0.3:
        cfg["t3"]["dialogue"] = {"template": rng.choice(["{labels} " * 50, "{snippets_text} and {labels}", "a b c d e f g h i j k"]), "include_top_k_snippets": 3}
    labs = [n[1] for g in world["graphs"].values() for n in g["nodes"] if n[1]]
    with TurnEnv(cfg, world) as env:
        if loops > 1:
            env.cfg["t3"]["max_rag_loops"] = loops
            sess.count("real_turn_histories_with_raw_max_rag_loops>1")
        for ti in range(rng.randint(1, 4)):
            calls = []
            real = core._t2_semantic if hasattr(core, "_t2_semantic") else core.t2_semantic

            def t2wrap(ctx, state, text, t1):
                calls.append(text)
                return real(ctx, state, text, t1)

            txt = (" ".join(rng.sample(labs, min(len(labs), rng.randint(0, 3)))) if labs else "") + f" q{ti}"
            with patched(orch, "t2_semantic", t2wrap):
                r = env.run(rng.choice(["A", "B"]), txt, ti + 1)
            case = {"cfg": cfg, "world": world, "turn": ti, "text": txt}
            sess.evaluations += 1
            sess.count("real_turns")
            if r["exc"]:
                sess.violation("turn-raises:" + r["exc_type"], case, r["tb"][-300:])
                return
            limit = 2 if loops >= 1 else 1
            if len(calls) > limit:
                sess.violation("more-than-one-refinement-retrieval", case, {"t2_calls": len(calls), "max_rag_loops": loops})
            if len(calls) == 2:
                sess.count("turns_with_refinement_retrieval")
                sess.nontrivial.add(chash(("rag", ti, txt)))
            n = len((r["line"] or "").split())
            t3r = env.records("t3.jsonl")
            # the returned line falls back to the input text when the utterance is empty: judge the dialogue record
            dl = env.records("t3_dialogue.jsonl")
            if dl:
                if int(dl[-1].get("tokens", 0)) > tokens:
                    sess.violation("turn-utterance-exceeds-token-budget", case, {"tokens": dl[-1].get("tokens"), "budget": tokens})
                if dl[-1].get("truncated"):
                    sess.count("turn_utterances_truncated")
                if (r["line"] or "") and n > tokens and dl[-1].get("tokens", 0) != 0:
                    sess.violation("turn-utterance-exceeds-token-budget", case, {"line_tokens": n, "budget": tokens})


# ------------------------------------------------------------------------------ driver
def _chunk(args):
    tier, seed, i, what, n = args
    from vlib import bootstrap

    bootstrap.init()
    bootstrap.ensure_deps()
    rng = random.Random(f"C13/{seed}/{i}/{what}")
    sess = Session.worker(PID, tier, seed)
    try:
        if what == "plan":
            for _ in range(n):
                b = gen_bundle(rng)
                p = check_deliberate(b, sess)
                if p is not None:
                    check_rag(b, p, rng, sess)
        elif what == "speak":
            for _ in range(n):
                check_speak(rng, sess)
        elif what == "san":
            for j in range(n):
                t_ = gen_text(rng)
                check_sanitiser(t_, sess)
                if j % 8 == 0 and len(t_) < 30000:
                    check_llm_planner(t_, sess)
            try:
                from hypothesis import given, settings, strategies as st, HealthCheck

                @settings(max_examples=200 if tier == "quick" else 3000, derandomize=True, database=None, deadline=None,
                          suppress_health_check=list(HealthCheck))
                @given(st.one_of(st.text(max_size=300), st.text(alphabet='{}[]",:` \njsonplartie0123456789', max_size=200),
                                 st.recursive(st.none() | st.booleans() | st.integers() | st.text(max_size=5),
                                              lambda ch: st.lists(ch, max_size=3) | st.dictionaries(st.sampled_from(["plan", "rationale", "reflection", "x"]), ch, max_size=4),
                                              max_leaves=8).map(lambda o: json.dumps(o))))
                def prop(t):
                    check_sanitiser(t, sess)

                prop()
                sess.count("hypothesis_batches")
            except ImportError:
                sess.assume("hypothesis not importable in this run; grammar-generated strings only")
        elif what == "turns":
            for _ in range(n):
                check_turns(rng, sess)
    except Exception as ex:
        import traceback
        sess.inconclusive_because(f"harness error {type(ex).__name__}: {ex} @ {traceback.format_exc()[-400:]}")
    return sess.export()


def main(tier: str, seed: int):
    sess = Session(PID, tier, seed, level="exploration", rule=RULE)
    sess.assume("the utterance budget is SpeakOp.max_tokens when positive, else the agent token cap (as speak() documents); tokens are whitespace tokens")
    sess.assume("accepted sanitiser inputs may carry the documented boolean-like reflection values ('true'/'1'/...); everything else is judged by a strict independent schema")
    q = tier == "quick"
    jobs = [(tier, seed, i, "plan", 400 if q else 8000) for i in range(5 if q else 14)]
    jobs += [(tier, seed, i, "speak", 300 if q else 6000) for i in range(4 if q else 14)]
    jobs += [(tier, seed, i, "san", 1200 if q else 30000) for i in range(4 if q else 14)]
    jobs += [(tier, seed, i, "turns", 10 if q else 150) for i in range(6 if q else 14)]
    for ex in par.pmap(_chunk, jobs):
        sess.merge(ex)
    sess.require("deliberate_calls", 1000)
    sess.require("rag_refinements_performed", 100)
    sess.require("speak_calls", 500)
    sess.require("llm_calls", 500)
    sess.require("utterances_truncated", 100)
    sess.require("sanitiser_calls", 3000)
    sess.require("sanitiser_accepted", 100)
    sess.require("sanitiser_rejected", 1000)
    sess.require("real_turns", 50)
    sess.require("llm_planner_calls", 200)
    sess.require("llm_planner_accepted", 5)
    sess.require("llm_planner_fallbacks", 50)
    sess.require("turns_with_refinement_retrieval", 5)
    sess.finish()


def replay(body, tier, seed):
    sess = Session(PID, tier, seed, rule=RULE)
    sess.replay_mode = True
    case = unjson(body["case"])
    if "bundle" in case:
        p = check_deliberate(case["bundle"], sess)
        if p is not None:
            check_rag(case["bundle"], p, random.Random(0), sess)
    elif "text" in case and "cfg" not in case:
        check_sanitiser(case["text"], sess)
    else:
        rng = random.Random(0)
        for _ in range(200):
            check_speak(rng, sess)
    return sess.finish(exit_process=False)
