"""C12 - Propagation follows the documented spreading rule within its budgets.

Monitors on the real `t1_propagate` (stage cache off; C05 owns caching):
  (1) model-free invariants: seed set, reachability within min(radius, layer cap) hops, pops /
      layers / relaxations within the *effective* (config min slice) budgets per graph, ids sorted
      and unique per graph, multi-graph result = concatenation of the single-graph results, store
      fingerprint + etag unchanged, arguments unchanged, repeat call identical;
  (2) hooked work counts: `t1.heapq` is rebound to a counting proxy and `_compute_decay` wrapped,
      so `pops` is checked against heappop events and `propagations` against decay evaluations;
  (3) an independent reference model of the documented rule (max-heap by magnitude with id
      tie-break, contribution = w x weight x multiplier(rel, 0.6) x decay(d), EPS cut-off, node
      budget, radius/layer/relax caps): touched ids, every counter and max_delta compared exactly.
With perf caps (frontier / visited / dedupe) on, eviction makes the model moot: only (1)+(2).
"""
from __future__ import annotations

import copy
import heapq as _heapq
import random
from types import SimpleNamespace as NS

from vlib import par
from vlib.harness import AD, to_ad, build_store, store_fingerprint, gen_graph, gen_text, validated, patched, VOCAB
from vlib.session import Session, unjson, chash

PID = "C12"
RULE = ("one case = one (graphs, text, t1 config, slice caps, perf caps) tuple run through the real t1_propagate; "
        "non-trivial = at least one graph has a seed and at least 2 nodes are touched")
EPS = 1e-6
DEF_MULT = {"supports": 1.0, "associates": 0.6, "contradicts": 0.8}


# --------------------------------------------------------------------------- generator
def gen_case(rng: random.Random, big=False) -> dict:
    ng = rng.choice([1, 1, 1, 2, 3, 4 if big else 2])
    graphs = {}
    for gi in range(ng):
        gid = rng.choice(["g", "G", "graph:", "γ"]) + str(gi)
        graphs[gid] = gen_graph(rng, nmax=25 if big else 10, emax=40 if big else 16, idp=rng.choice(["n", "n:", "N"]))
    klass = rng.choice(["validated", "validated", "raw"])
    t1 = {}
    mode = rng.choice(["exp_floor", "attn_quad", "default", None])
    if mode == "exp_floor":
        t1["decay"] = {"mode": "exp_floor", "rate": rng.choice([0.6, 0.9, 0.1, 1.0, 0.0]), "floor": rng.choice([0.05, 0.0, 0.5, 1.0])}
    elif mode == "attn_quad":
        t1["decay"] = {"mode": "attn_quad", "alpha": rng.choice([0.8, 0.0, 2.0, 100.0])}
    elif mode == "default":
        t1["decay"] = {}
    else:
        t1["decay"] = {"mode": rng.choice(["exp_floor", "attn_quad"])}
    if rng.random() < 0.6:
        t1["edge_type_mult"] = {"supports": rng.choice([1.0, 0.5]), "associates": rng.choice([0.6, 0.0]),
                                "contradicts": rng.choice([0.8, -0.8])}
        if rng.random() < 0.2:
            t1["edge_type_mult"]["weird"] = rng.choice([2.0, -1.0])
    if rng.random() < 0.7:
        t1["queue_budget"] = rng.choice([0, 1, 2, 3, 5, 8, 10000])
    if rng.random() < 0.6:
        t1["node_budget"] = rng.choice([0.5, 1.0, 1.5, 100.0, 1e-3])
    if rng.random() < 0.6:
        t1["radius_cap"] = rng.choice([0, 1, 2, 3, 4, 50])
    if rng.random() < 0.5:
        t1["iter_cap"] = rng.choice([0, 1, 2, 50])
    if klass == "raw":
        if rng.random() < 0.7:
            t1["iter_cap_layers"] = rng.choice([0, 1, 2, 3, 50])
        if rng.random() < 0.7:
            t1["relax_cap"] = rng.choice([None, 1, 2, 3, 10, 1000])
    t1["cache"] = {"enabled": False}
    slice_b = None
    if rng.random() < 0.4:
        slice_b = {}
        if rng.random() < 0.7:
            slice_b["t1_pops"] = rng.choice([0, 1, 2, 4, 10, 100000])
        if rng.random() < 0.7:
            slice_b["t1_iters"] = rng.choice([0, 1, 2, 3, 100])
    perf = None
    if rng.random() < 0.25:
        perf = {"enabled": rng.random() < 0.8, "t1": {}}
        if rng.random() < 0.6:
            perf["t1"]["caps"] = {}
            if rng.random() < 0.7:
                perf["t1"]["caps"]["frontier"] = rng.choice([1, 2, 3, 100])
            if rng.random() < 0.7:
                perf["t1"]["caps"]["visited"] = rng.choice([1, 2, 3, 100])
        if rng.random() < 0.5:
            perf["t1"]["dedupe_window"] = rng.choice([1, 2, 8])
        if rng.random() < 0.3:
            perf["metrics"] = {"report_memory": True}
    text = gen_text(rng, kmax=4)
    if rng.random() < 0.7:  # make sure something seeds: quote labels that exist in the graphs
        labs = [n[1] for g in graphs.values() for n in g["nodes"] if n[1]]
        if labs:
            text = (text + " " + " ".join(rng.sample(labs, min(len(labs), rng.randint(1, 2))))).strip()
            if rng.random() < 0.3:
                text = text.upper()
    return {"graphs": graphs, "klass": klass, "t1": t1, "slice": slice_b, "perf": perf, "text": text,
            "warm_cache": rng.random() < 0.4, "warm_loose_cfg": rng.random() < 0.5, "edit_between": rng.random() < 0.3,
            "order": rng.sample(list(graphs), len(graphs)) + ([rng.choice(list(graphs))] if rng.random() < 0.1 else [])}


def build_cfg(case):
    over = {"t1": copy.deepcopy(case["t1"])}
    if case.get("perf"):
        over["perf"] = copy.deepcopy(case["perf"])
    if case["klass"] == "validated":
        return to_ad(validated(over))
    return to_ad(over)


# --------------------------------------------------------------------------- model
def eff_caps(case, cfg_t1):
    qb = int(cfg_t1.get("queue_budget", 10_000))
    nb = float(cfg_t1.get("node_budget", 1.5))
    radius = int(cfg_t1.get("radius_cap", 4))
    iter_cap = int(cfg_t1.get("iter_cap", 50))
    layers = min(int(cfg_t1.get("iter_cap_layers", 50)), iter_cap)
    relax = cfg_t1.get("relax_cap", None)
    sb = case.get("slice") or {}
    if sb.get("t1_iters") is not None:
        layers = min(layers, int(sb["t1_iters"]))
    if sb.get("t1_pops") is not None:
        qb = min(qb, int(sb["t1_pops"]))
    return dict(qb=qb, nb=nb, radius=radius, layers=layers, relax=None if relax is None else int(relax))


def decay_of(d, dec):
    mode = dec.get("mode", "exp_floor")
    if mode == "attn_quad":
        return 1.0 / (1.0 + float(dec.get("alpha", 0.8)) * (d ** 2))
    return max(float(dec.get("rate", 0.6)) ** d, float(dec.get("floor", 0.05)))


def seeds_of(g, text):
    t = text.lower()
    s = set()
    for n in g["nodes"]:
        nid, lab = n[0], n[1]
        tags = n[2] if len(n) > 2 and n[2] is not None else []
        cands = []
        if lab:
            cands.append(lab)
        cands += [x for x in tags if isinstance(x, str) and x]
        if any(c.lower() in t for c in cands):
            s.add(nid)
    return s


def model_one(g, text, c, dec, mult):
    seeds = seeds_of(g, text)
    z = dict(pops=0, iters=0, propagations=0, radius=0, layer=0, nodeb=0, maxd=0.0)
    if not seeds:
        return [], z
    adj = {}
    # csr order: edges in first-insertion order of their id (later duplicates of an id overwrite in place)
    by_id = {}
    for e in g["edges"]:
        by_id[e[0]] = e
    for e in by_id.values():
        adj.setdefault(e[1], []).append((e[2], e[3], e[4]))
    acc, dist, pq = {}, {}, []
    maxd = 0.0
    # seeding order is by lower-cased label; order only matters for float accumulation (all 1.0) -> immaterial
    fcap = c.get("frontier")

    def trim():
        # the perf frontier cap keeps the `cap` strongest queued entries (heap-tuple order)
        nonlocal pq
        if fcap is not None and len(pq) > fcap:
            pq = _heapq.nsmallest(fcap, pq)
            _heapq.heapify(pq)

    for nid in sorted(seeds):
        _heapq.heappush(pq, (-1.0, nid, nid, 1.0))
        trim()
        acc[nid] = acc.get(nid, 0.0) + 1.0
        dist[nid] = 0
        maxd = max(maxd, 1.0)
    pops = layers = props = lh = rh = nbh = 0
    stop = False
    while pq and pops < c["qb"]:
        _, _, u, w = _heapq.heappop(pq)
        pops += 1
        layer = dist.get(u, 0)
        if layer > 0 and layer > layers:
            layers = layer
            if layers > c["layers"]:
                continue
        if abs(acc.get(u, 0.0)) >= c["nb"]:
            nbh += 1
            continue
        if u not in adj:
            continue
        for v, ew, rel in adj[u]:
            d = dist[u] + 1
            if d > c["radius"]:
                rh += 1
                continue
            if d > c["layers"]:
                lh += 1
                continue
            contrib = w * float(ew) * float(mult.get(rel, 0.6)) * decay_of(d, dec)
            if abs(contrib) < EPS:
                continue
            acc[v] = acc.get(v, 0.0) + contrib
            props += 1
            maxd = max(maxd, abs(contrib))
            if v not in dist or d < dist[v]:
                dist[v] = d
            if abs(acc[v]) < c["nb"]:
                _heapq.heappush(pq, (-abs(contrib), v, v, contrib))
                trim()
            else:
                nbh += 1
            if c["relax"] is not None and props >= c["relax"]:
                stop = True
                break
        if stop:
            break
    # documented rule: drop a node when |value| < EPS (a NaN accumulator - inf-inf after overflow - is therefore kept)
    touched = [nid for nid, val in sorted(acc.items()) if not (abs(val) < EPS)]
    return touched, dict(pops=pops, iters=min(layers, c["layers"]), propagations=props, radius=rh, layer=lh, nodeb=nbh, maxd=maxd)


def reach_within(g, seeds, hops):
    adj = {}
    for e in g["edges"]:
        adj.setdefault(e[1], set()).add(e[2])
    seen = set(seeds)
    fr = set(seeds)
    for _ in range(max(0, hops)):
        nx = set()
        for u in fr:
            for v in adj.get(u, ()):
                if v not in seen:
                    seen.add(v)
                    nx.add(v)
        fr = nx
        if not fr:
            break
    return seen


# --------------------------------------------------------------------------- oracle
class HeapProxy:
    def __init__(self):
        self.pops = 0
        self.pushes = 0

    def heappush(self, h, x):
        self.pushes += 1
        return _heapq.heappush(h, x)

    def heappop(self, h):
        self.pops += 1
        return _heapq.heappop(h)

    def __getattr__(self, k):
        return getattr(_heapq, k)


def run_real(case, cfg, order, text):
    import clematis.engine.stages.t1 as t1m

    st = build_store(case["graphs"])
    ctx = NS(cfg=cfg)
    if case.get("slice") is not None:
        ctx.slice_budgets = dict(case["slice"])
    state = {"store": st, "active_graphs": list(order)}
    fp0 = store_fingerprint(st)
    hp = HeapProxy()
    dec_calls = [0]
    real_decay = t1m._compute_decay

    def decay_wrap(d, c):
        dec_calls[0] += 1
        return real_decay(d, c)

    cfg0 = copy.deepcopy(cfg)
    sl0 = copy.deepcopy(case.get("slice"))
    with patched(t1m, "heapq", hp), patched(t1m, "_compute_decay", decay_wrap):
        r = t1m.t1_propagate(ctx, state, text)
    return dict(res=r, fp_same=(fp0 == store_fingerprint(st)), pops=hp.pops, pushes=hp.pushes, decays=dec_calls[0],
                cfg_same=(cfg0 == cfg), slice_same=(sl0 == getattr(ctx, "slice_budgets", None)),
                order_same=(state["active_graphs"] == list(order)))


def run_warm(case, cfg, order, text):
    """Stage cache ON: first an uncapped call (no slice budgets, loose config caps) on the same store, then the
    case's own call.  Returns the second result (None if the config cannot be built)."""
    import clematis.engine.stages.t1 as t1m
    from vlib import bootstrap

    bootstrap.reset_globals()
    st = build_store(case["graphs"])
    cfg_on = copy.deepcopy(cfg)
    cfg_on["t1"]["cache"] = AD({"enabled": True, "max_entries": 64, "ttl_s": 300})
    loose = copy.deepcopy(cfg_on)
    if case.get("warm_loose_cfg"):
        for k in ("queue_budget", "iter_cap", "iter_cap_layers", "radius_cap", "relax_cap"):
            loose["t1"].pop(k, None)
    state = {"store": st, "active_graphs": list(order)}
    try:
        t1m.t1_propagate(NS(cfg=loose), state, text)
        ctx = NS(cfg=cfg_on)
        if case.get("slice") is not None:
            ctx.slice_budgets = dict(case["slice"])
        return t1m.t1_propagate(ctx, state, text)
    finally:
        bootstrap.reset_globals()


def run_edited(case, cfg, order, text, rng):
    """Propagate, edit the store in place (existing edge ids re-upserted with another weight / relation / endpoint,
    through upsert_edges or one at a time), propagate again: the second result must be the one a freshly built store
    with the edited content gives.  Returns (second result on the edited store, result on the fresh store, n edits)."""
    import clematis.engine.stages.t1 as t1m
    from clematis.engine.types import Edge
    from vlib import bootstrap

    g2 = copy.deepcopy(case["graphs"])
    edits = 0
    for gid, g in g2.items():
        ids = [n[0] for n in g["nodes"]]
        for e in g["edges"]:
            r = rng.random()
            if r < 0.35:
                e[3] = rng.choice([0.0, 1.0, -0.9, 0.05, e[3] * -1.0])
                edits += 1
            elif r < 0.5:
                e[4] = rng.choice(["supports", "associates", "contradicts", "zz-unknown"])
                edits += 1
            elif r < 0.65 and ids:
                e[2] = rng.choice(ids)
                edits += 1
    if not edits:
        return None

    def call(st):
        ctx = NS(cfg=copy.deepcopy(cfg))
        if case.get("slice") is not None:
            ctx.slice_budgets = dict(case["slice"])
        return t1m.t1_propagate(ctx, {"store": st, "active_graphs": list(order)}, text)

    bootstrap.reset_globals()
    st = build_store(case["graphs"])
    call(st)
    one_by_one = rng.random() < 0.5
    for gid, g in g2.items():
        es = [Edge(id=e[0], src=e[1], dst=e[2], weight=e[3], rel=e[4]) for e in g.get("edges", [])]
        if not es:
            continue
        if one_by_one:
            for e_ in es:
                st.upsert_edges(gid, [e_])
        else:
            st.upsert_edges(gid, es)
    second = call(st)
    bootstrap.reset_globals()
    fresh = call(build_store(g2))
    bootstrap.reset_globals()
    return second, fresh, edits


def check_case(case, sess: Session):
    try:
        cfg = build_cfg(case)
    except Exception as ex:
        sess.count("cfg_rejected_by_validator")
        return
    cfg_t1 = cfg["t1"]
    if "decay" not in cfg_t1:
        cfg_t1["decay"] = AD({})
    text = case["text"]
    order = case["order"]
    try:
        out = run_real(case, cfg, order, text)
    except Exception as ex:
        if case["klass"] == "raw":
            sess.count("raw_config_raised_" + type(ex).__name__)
            return
        sess.violation("raises:" + type(ex).__name__, case, repr(ex)[:300])
        return
    r = out["res"]
    m = r.metrics
    got = [d.get("id") for d in r.graph_deltas]
    c = eff_caps(case, cfg_t1)
    dec = dict(cfg_t1.get("decay", {}) or {})
    mult = dict(cfg_t1.get("edge_type_mult", DEF_MULT))
    perf = case.get("perf") or {}
    p1 = perf.get("t1") or {}
    perf_caps_on = bool(perf.get("enabled")) and bool((p1.get("caps") or {}).get("frontier") or (p1.get("caps") or {}).get("visited") or p1.get("dedupe_window"))
    # the frontier cap is modelled; the visited cap and the dedupe window never engage on this tree (their containers are
    # falsy while empty, so nothing is ever added to them) and the model treats them as absent
    if bool(perf.get("enabled")) and int((p1.get("caps") or {}).get("frontier") or 0) > 0:
        c["frontier"] = min(int(p1["caps"]["frontier"]), c["qb"])
    perf_modelled = perf_caps_on
    sess.count("t1_calls")
    sess.count("hooked_heappop_events", out["pops"])
    sess.count("hooked_decay_evaluations", out["decays"])

    # ---- (1) model-free invariants
    if not (out["fp_same"]):
        sess.violation("store-modified", case, "store fingerprint changed across t1_propagate")
    if not (out["cfg_same"] and out["slice_same"] and out["order_same"]):
        sess.violation("arguments-mutated", case, {k: out[k] for k in ("cfg_same", "slice_same", "order_same")})
    if any(set(d.keys()) != {"op", "id"} or d.get("op") != "upsert_node" for d in r.graph_deltas):
        sess.violation("delta-shape", case, r.graph_deltas[:3])
    ng = len(order)
    per_graph = []
    allowed_total = []
    seeds_any = False
    tot_nodes_touched = 0
    for gid in order:
        g = case["graphs"][gid]
        s = seeds_of(g, text)
        seeds_any = seeds_any or bool(s)
        hops = min(c["radius"], c["layers"])
        per_graph.append((gid, s, reach_within(g, s, hops)))
    # single-graph runs: compositionality + per-graph order/uniqueness
    concat = []
    sums = dict(pops=0, iters=0, propagations=0, radius_cap_hits=0, layer_cap_hits=0, node_budget_hits=0)
    for gid, s, reach in per_graph:
        o1 = run_real(case, copy.deepcopy(cfg), [gid], text)
        ids1 = [d["id"] for d in o1["res"].graph_deltas]
        m1 = o1["res"].metrics
        concat += ids1
        for k in sums:
            sums[k] += m1[k]
        if ids1 != sorted(set(ids1)):
            sess.violation("per-graph-order-or-duplicate", case, {"gid": gid, "ids": ids1})
        if not set(ids1) <= reach:
            sess.violation("touched-unreachable-node", case, {"gid": gid, "extra": sorted(set(ids1) - reach)})
        if not s and (ids1 or any(m1[k] for k in sums)):
            sess.violation("work-without-seed", case, {"gid": gid, "ids": ids1, "m": m1})
        if m1["pops"] > c["qb"]:
            sess.violation("pop-budget-exceeded", case, {"gid": gid, "pops": m1["pops"], "budget": c["qb"]})
        if o1["pops"] > c["qb"]:
            sess.violation("pop-budget-exceeded(hooked)", case, {"gid": gid, "pops": o1["pops"], "budget": c["qb"]})
        if m1["iters"] > max(0, c["layers"]):
            sess.violation("layer-cap-exceeded", case, {"gid": gid, "iters": m1["iters"], "cap": c["layers"]})
        if c["relax"] is not None and c["relax"] >= 1 and m1["propagations"] > c["relax"]:
            sess.violation("relax-cap-exceeded", case, {"gid": gid, "props": m1["propagations"], "cap": c["relax"]})
        if m1["pops"] != o1["pops"]:
            sess.violation("pops-counter-vs-events", case, {"gid": gid, "metric": m1["pops"], "events": o1["pops"]})
        if m1["propagations"] > o1["decays"]:
            sess.violation("propagations-counter-vs-events", case, {"gid": gid, "metric": m1["propagations"], "decays": o1["decays"]})
        tot_nodes_touched += len(ids1)
    if concat != got:
        sess.violation("multi-graph-not-concatenation", case, {"multi": got, "concat": concat})
    for k, v in sums.items():
        if m.get(k) != v:
            sess.violation("multi-graph-counter-not-sum", case, {"k": k, "multi": m.get(k), "sum": v})
    if m["pops"] != out["pops"]:
        sess.violation("pops-counter-vs-events", case, {"metric": m["pops"], "events": out["pops"]})
    if m.get("graphs_touched") != ng:
        sess.violation("graphs_touched", case, m.get("graphs_touched"))
    # repeat
    o2 = run_real(case, copy.deepcopy(cfg), order, text)
    if [d["id"] for d in o2["res"].graph_deltas] != got or o2["res"].metrics != m:
        sess.violation("repeat-call-differs", case, {"a": m, "b": o2["res"].metrics})

    # ---- (1b) the same call behind a warm stage cache: an earlier, uncapped call on the same store must not leak
    if case.get("warm_cache"):
        out_w = run_warm(case, cfg, order, text)
        if out_w is not None:
            sess.count("warm_cache_calls")
            mw = out_w.metrics
            if [d.get("id") for d in out_w.graph_deltas] != got or any(mw.get(k) != m.get(k) for k in ("pops", "iters", "propagations", "radius_cap_hits", "layer_cap_hits", "node_budget_hits")):
                sess.violation("warm-stage-cache-changes-result", case, {"cold": [got, {k: m.get(k) for k in ("pops", "iters", "propagations")}],
                                                                         "warm": [[d.get("id") for d in out_w.graph_deltas], {k: mw.get(k) for k in ("pops", "iters", "propagations")}]})
            if mw.get("cache_hits"):
                sess.count("warm_cache_hits_served")

    # ---- (1c) the store edited in place between two propagations
    if case.get("warm_cache") or case.get("edit_between"):
        ed = run_edited(case, cfg, order, text, random.Random(chash(case)))
        if ed is not None:
            second, fresh, n_ed = ed
            sess.count("edited_store_repropagations")
            keys_ = ("pops", "iters", "propagations", "radius_cap_hits", "layer_cap_hits", "node_budget_hits")
            a_ = ([d.get("id") for d in second.graph_deltas], {k: second.metrics.get(k) for k in keys_})
            b_ = ([d.get("id") for d in fresh.graph_deltas], {k: fresh.metrics.get(k) for k in keys_})
            if a_ != b_:
                sess.violation("edited-store:result-differs-from-a-fresh-store-with-the-same-content", case, {"edited": a_, "fresh": b_, "edits": n_ed})
            elif b_[0] != got:
                sess.count("edited_store_repropagations_where_the_edit_changed_the_result")

    # ---- (3) reference model
    if True:
        if perf_caps_on:
            sess.count("model_comparisons_under_perf_caps")
        exp_ids = []
        em = dict(pops=0, iters=0, propagations=0, radius=0, layer=0, nodeb=0, maxd=0.0)
        for gid in order:
            ids_m, mm = model_one(case["graphs"][gid], text, c, dec, mult)
            exp_ids += ids_m
            for k in em:
                em[k] = max(em[k], mm[k]) if k == "maxd" else em[k] + mm[k]
        sess.count("model_comparisons")
        gotm = (m["pops"], m["iters"], m["propagations"], m["radius_cap_hits"], m["layer_cap_hits"], m["node_budget_hits"], m["max_delta"])
        expm = (em["pops"], em["iters"], em["propagations"], em["radius"], em["layer"], em["nodeb"], em["maxd"])
        if got != exp_ids:
            sess.violation("model:touched-set", case, {"got": got, "model": exp_ids})
        elif gotm != expm:
            sess.violation("model:counters", case, {"got": gotm, "model": expm})
    nontrivial = seeds_any and tot_nodes_touched >= 2
    sess.case(case, nontrivial=nontrivial, sample={"text": text, "touched": got[:8], "metrics": {k: m[k] for k in ("pops", "iters", "propagations")}})
    if m["propagations"] > 0:
        sess.count("cases_with_propagation")
    if any(m[k] for k in ("radius_cap_hits", "layer_cap_hits", "node_budget_hits")) or m["pops"] >= c["qb"]:
        sess.count("cases_where_a_budget_bound")


def _chunk(args):
    tier, seed, i, n = args
    from vlib import bootstrap

    bootstrap.init()
    rng = random.Random(f"C12/{seed}/{i}")
    sess = Session.worker(PID, tier, seed)
    for _ in range(n):
        case = gen_case(rng, big=(tier == "thorough" and rng.random() < 0.3))
        try:
            check_case(case, sess)
        except Exception as ex:  # harness error, not a verdict
            sess.inconclusive_because(f"harness error {type(ex).__name__}: {ex}")
    return sess.export()


def main(tier: str, seed: int):
    sess = Session(PID, tier, seed, level="exploration", rule=RULE)
    sess.assume("contribution values are not part of T1Result; they are observed through the touched set (EPS cut-off, node budget), max_delta and the counters, compared with the reference model")
    sess.assume("iter_cap_layers and relax_cap are read by the stage but rejected by the validator; they are exercised on raw (unvalidated) configs, where an exception from the stage is not counted")
    sess.assume("with perf frontier/visited/dedupe caps on only the model-free invariants and hooked counts are enforced")
    total = 6000 if tier == "quick" else 600000
    nchunks = par.NWORK * (1 if tier == "quick" else 4)
    per = max(1, total // nchunks)
    for ex in par.pmap(_chunk, [(tier, seed, i, per) for i in range(nchunks)]):
        sess.merge(ex)
    sess.require("t1_calls", 500)
    sess.require("model_comparisons", 300)
    sess.require("hooked_heappop_events", 500)
    sess.require("cases_where_a_budget_bound", 50)
    sess.require("cases_with_propagation", 500)
    sess.require("warm_cache_hits_served", 50)
    sess.require("edited_store_repropagations_where_the_edit_changed_the_result", 30)
    sess.finish()


def replay(body, tier, seed):
    sess = Session(PID, tier, seed, rule=RULE)
    sess.replay_mode = True
    check_case(unjson(body["case"]), sess)
    return sess.finish(exit_process=False)
