"""C11 - Retrieval honours scope, thresholds, caps and documented ranking.

Monitors on the real `t2_semantic` (stage cache off; C05 owns caching):
  (1) invariants on every result: <= k ids, no duplicates, owner scope, score >= threshold, score ==
      float32 cosine of a visible episode with that id, tier rules (recency window / top-m clusters);
  (2) reference model of the tier walk (exact -> cluster -> archive in configured order, dedupe,
      stop at k) and of the combined score ordering (score desc, id asc), compared with what enters
      the quality layer (captured by a call-through wrapper on `core._apply_quality`);
  (3) rerank layers: `apply_quality` as a whole, `rerank_with_gel`, `quality_ops.fuse` and
      `maybe_apply_mmr` wrapped call-through - output ids must be a permutation of the input ids;
  (4) residual nudges recomputed from the label map and used_hits = retrieved[:t2_k].
"""
from __future__ import annotations

import copy
import datetime as dtm
import hashlib
import random
from types import SimpleNamespace as NS

import numpy as np

from vlib import par
from vlib.harness import (AD, to_ad, build_store, build_index, store_fingerprint, gen_graph, validated, patched,
                          VOCAB, NOW_MS, iso_from_ms)
from vlib.session import Session, unjson

PID = "C11"
RULE = ("one case = one (memory, store, GEL edges, t2 config, agent, query, slice cap) tuple through the real t2_semantic; "
        "non-trivial = at least 2 episodes retrieved")
DIM = 32
WORDS = [w.lower() for w in VOCAB]


def _iso(days_ago, secs=0, off_min=None):
    t = dtm.datetime.fromtimestamp(NOW_MS / 1000, tz=dtm.timezone.utc) - dtm.timedelta(days=days_ago, seconds=secs)
    if off_min is not None:
        # the same instant written with another UTC offset (the window is about instants, not about the text of the stamp)
        return t.astimezone(dtm.timezone(dtm.timedelta(minutes=off_min))).isoformat()
    return t.isoformat().replace("+00:00", "Z") if secs % 2 == 0 else t.isoformat()


def gen_case(rng: random.Random, big=False) -> dict:
    n = rng.choice([0, 1, 2, 3, 5, 8, 12, 20, 20, 30] + ([40, 80] if big else []))
    eps = []
    recent = rng.choice([30, 1, 0, 365, 7])
    for i in range(n):
        txt = " ".join(rng.choice(VOCAB) for _ in range(rng.randint(1, 5)))
        days = rng.choice([0, 1, recent, recent, max(0, recent - 1), recent + 1, 100, 400, 800])
        e = {"id": f"ep{i}", "owner": rng.choice(["A", "A", "A", "B", "world", "world", "X", ""]), "text": txt,
             "ts": _iso(days, rng.choice([0, 1, -1, 2, -2, 3600, 7200, -7200, 30000, -30000]), rng.choice([None, None, None, 330, -480, 840, -720, 60])), "vec": "enc", "aux": {}}
        r = rng.random()
        if r < 0.05:
            e["id"] = f"ep{rng.randint(0, max(0, n - 1))}"  # duplicate id
        if rng.random() < 0.06:
            e["ts"] = None
        if rng.random() < 0.07:
            # a memory without words (empty / blank text), embedded from other words: a hit like any other
            e["vec"] = "enc:" + txt
            e["text"] = rng.choice(["", "  "])
        if rng.random() < 0.3:
            e["vec_store"] = rng.choice(["f64", "f64", "list"])
        if rng.random() < 0.08:
            e["vec"] = rng.choice(["zero", None])
        elif rng.random() < 0.1 and eps:
            e["vec"] = "enc:" + rng.choice(eps)["text"]  # duplicate vector
        if rng.random() < 0.7:
            e["aux"]["importance"] = rng.choice([0.5, 0.0, 1.0, 2.0, -1.0, 0.25])
        if rng.random() < 0.5:
            e["aux"]["cluster_id"] = rng.choice(["c1", "c2", "c3", "c4"])
        if rng.random() < 0.1:
            del e["aux"]
        eps.append(e)
    if eps and rng.random() < 0.3:
        # near-twins: the same memory written again a few milliseconds / seconds later under an id that sorts AFTER the
        # older one - the scores differ in the 10th..12th decimal and the higher (newer) one ranks first
        for _ in range(rng.randint(1, 4)):
            src = rng.choice(eps)
            if not src.get("ts") or src.get("vec") != "enc":
                continue
            try:
                t0 = dtm.datetime.fromisoformat(str(src["ts"]).replace("Z", "+00:00"))
            except Exception:
                continue
            tw = copy.deepcopy(src)
            tw["id"] = str(src["id"]) + rng.choice(["z", "~", "_b"])
            tw["ts"] = (t0 + dtm.timedelta(milliseconds=rng.choice([3, 40, 1000, 2500]))).isoformat()
            eps.append(tw)
    tiers = rng.sample(["exact_semantic", "cluster_semantic", "archive"], rng.randint(1, 3))
    if rng.random() < 0.1:
        tiers.insert(rng.randint(0, len(tiers)), "bogus_tier")
    t2 = {"k_retrieval": rng.choice([1, 2, 3, 5, 8, 64]), "sim_threshold": rng.choice([-1.0, -1.0, -0.2, 0.0, 0.0, 0.05, 0.1, 0.3, 1.0]),
          "tiers": tiers, "exact_recent_days": recent, "clusters_top_m": rng.choice([1, 2, 3, 10]),
          # the scope is matched case-insensitively (the validator accepts any spelling and keeps it verbatim)
          "owner_scope": rng.choice(["any", "agent", "agent", "world", "Agent", "AGENT", "World", "ANY"]),
          "ranking": {"alpha_sim": rng.choice([0.75, 1.0, 0.0, 0.5]), "beta_recency": rng.choice([0.2, 0.0, 1.0]),
                      "gamma_importance": rng.choice([0.05, 0.0, 1.0])},
          "cache": {"enabled": False}}
    if rng.random() < 0.6:
        t2["residual_cap_per_turn"] = rng.choice([0, 1, 2, 3, 32])
    gel = None
    if rng.random() < 0.35:
        t2["hybrid"] = {"enabled": True, "use_graph": rng.random() < 0.9, "anchor_top_m": rng.choice([1, 2, 8]),
                        "walk_hops": rng.choice([1, 2]), "edge_threshold": rng.choice([0.0, 0.1, 0.5]),
                        "lambda_graph": rng.choice([0.25, 1.0, 0.0]), "damping": rng.choice([0.5, 1.0]),
                        "degree_norm": rng.choice(["none", "invdeg"]), "max_bonus": rng.choice([0.5, 0.0, 10.0]),
                        "k_max": rng.choice([1, 2, 4, 128])}
        ids = sorted({e["id"] for e in eps})
        gel = []
        for _ in range(rng.randint(0, 12)):
            if len(ids) >= 2:
                a, b = rng.sample(ids, 2)
                gel.append([a, b, rng.choice([0.9, 0.5, 0.2, -0.7, 0.05, 1.0])])
    if rng.random() < 0.35:
        q = {"enabled": True, "fusion": {"alpha_semantic": rng.choice([0.6, 0.0, 1.0])}}
        if rng.random() < 0.6:
            q["mmr"] = {"enabled": True, "lambda": rng.choice([0.5, 0.0, 1.0]), "k": rng.choice([1, 2, 5])}
            if rng.random() < 0.3:
                del q["mmr"]["k"]
        t2["quality"] = q
    graphs = {}
    for gi in range(rng.choice([0, 1, 1, 2])):
        graphs[f"g{gi}"] = gen_graph(rng, nmax=8, emax=4)
    t1_ids = []
    for g in graphs.values():
        t1_ids += [n[0] for n in g["nodes"] if rng.random() < 0.3]
    sl = None
    if rng.random() < 0.4:
        sl = {"t2_k": rng.choice([0, 1, 2, 3, 100, -1])}
    query = " ".join(rng.sample(VOCAB, rng.randint(0, 3)))
    if eps and rng.random() < 0.3:
        query = rng.choice(eps)["text"]  # exact text of an episode: cosine 1.0
    followups = []
    for _ in range(rng.choice([0, 1, 2, 3])):
        fu = {"agent": rng.choice(["A", "B", "Z"])}
        if rng.random() < 0.3:
            fu["query"] = " ".join(rng.sample(VOCAB, rng.randint(0, 3)))
        if rng.random() < 0.3:
            fu["t2"] = {"owner_scope": rng.choice(["any", "agent", "world", "Agent", "WORLD"])}
        elif rng.random() < 0.2:
            fu["t2"] = {"tiers": rng.sample(["exact_semantic", "cluster_semantic", "archive"], rng.randint(1, 3))}
        if graphs and rng.random() < 0.35:
            fu["relabel"] = rng.randint(1, 3)  # the nodes are renamed before this ask (same ids, same number of nodes)
        followups.append(fu)
    return {"eps": eps, "t2": t2, "gel": gel, "graphs": graphs, "t1_ids": t1_ids, "slice": sl, "query": query, "followups": followups,
            "agent": rng.choice(["A", "A", "B", "Z"]), "k_surface": DIM}


# --------------------------------------------------------------------------- model helpers
def piso(ts):
    try:
        return dtm.datetime.fromisoformat((ts or "").replace("Z", "+00:00")).astimezone(dtm.timezone.utc)
    except Exception:
        return None


def cos(a, b):
    a = np.asarray(a, dtype=np.float32)
    b = np.asarray(b, dtype=np.float32)
    na = float(np.linalg.norm(a)) or 1.0
    nb = float(np.linalg.norm(b)) or 1.0
    return float(np.dot(a, b) / (na * nb))


def cluster_id(e):
    c = (e.get("aux") or {}).get("cluster_id")
    if c:
        return str(c)
    return "c:" + hashlib.md5(str(e.get("id") or e.get("text", "")).encode()).hexdigest()[:8]


def rank(eps, q, k, thr):
    sc = []
    for e in eps:
        v = e.get("vec_full")
        if v is None:
            continue
        s = cos(q, v)
        if s >= thr:
            sc.append((e, s))
    sc.sort(key=lambda t: (-t[1], str(t[0].get("id"))))
    return sc[:k]


def model_walk(eps, q, c, agent, now):
    owner = {"agent": agent, "world": "world"}.get(c["scope"])
    pool = [e for e in eps if owner is None or e.get("owner") == owner]
    out, seen = [], set()
    for tier in c["tiers"]:
        if not pool:
            hits = []
        elif tier == "exact_semantic":
            rd = c["recent"]
            if rd and rd > 0:
                cut = now - dtm.timedelta(days=rd)
                sub = [e for e in pool if (piso(e.get("ts") or "") is None) or piso(e.get("ts")) >= cut]
            else:
                sub = pool
            hits = rank(sub, q, c["k"], c["thr"])
        elif tier == "cluster_semantic":
            byc = {}
            for e in pool:
                byc.setdefault(cluster_id(e), []).append(e)
            cs = []
            for cid, items in byc.items():
                vs = [np.asarray(i["vec_full"], dtype=np.float32) for i in items if i.get("vec_full") is not None]
                if not vs:
                    continue
                cs.append((cid, cos(q, np.mean(np.stack(vs, axis=0), axis=0))))
            cs.sort(key=lambda t: (-t[1], t[0]))
            chosen = {cid for cid, _ in cs[:c["topm"]]}
            sub = []
            for cid in sorted(chosen):
                sub.extend(byc[cid])
            hits = rank(sub, q, c["k"], c["thr"])
        elif tier == "archive":
            hits = rank(pool, q, c["k"], c["thr"])
        else:
            continue
        for e, s in hits:
            i = str(e["id"])
            if i in seen:
                continue
            out.append((i, s))
            seen.add(i)
            if len(out) >= c["k"]:
                break
        if len(out) >= c["k"]:
            break
    byid = {str(e.get("id")): e for e in eps}
    res = []
    for i, s in out:
        e = byid.get(i, {})
        ts = e.get("ts")
        if ts:
            age = max(0.0, (now - piso(ts)).total_seconds() / 86400.0)
        else:
            age = 365.0
        rec = max(0.0, min(1.0, 1.0 - age / 365.0))
        imp = max(0.0, min(1.0, float((e.get("aux") or {}).get("importance", 0.5))))
        res.append((i, s, c["a"] * ((s + 1.0) / 2.0) + c["b"] * rec + c["g"] * imp))
    res.sort(key=lambda t: (-t[2], t[0]))
    return res


def label_map_of(graphs, order):
    out = {}
    for gid in order:
        g = graphs[gid]
        nodes = {}
        for n in g["nodes"]:
            nodes[n[0]] = n  # later duplicate ids overwrite
        for nid in sorted(nodes):
            lab = nodes[nid][1]
            if lab:
                out[lab.lower()] = nid
    return out


# --------------------------------------------------------------------------- oracle
def ids_of(items):
    out = []
    for x in items or []:
        out.append(str(x.get("id")) if isinstance(x, dict) else str(getattr(x, "id", None)))
    return out


def check_case(case, sess: Session, shared=None):
    import clematis.engine.stages.t2.core as core
    import clematis.engine.stages.t2.quality as qual
    import clematis.engine.stages.t2.quality_ops as qops
    from clematis.adapters.embeddings import BGEAdapter

    try:
        cfg = to_ad(validated({"t2": copy.deepcopy(case["t2"]), "k_surface": case["k_surface"]}))
    except Exception as ex:
        sess.count("cfg_rejected_by_validator")
        return
    t2c = cfg["t2"]
    if shared is not None and "idx" in shared:
        # follow-up call of a history: same index object / store / GEL graph as the earlier calls
        idx, st, state = shared["idx"], shared["st"], shared["state"]
        sess.count("followup_calls_on_shared_index")
    else:
        idx = build_index(case["eps"], dim=DIM)
        st = build_store(case["graphs"]) if case["graphs"] else None
        state = {"mem_index": idx}
        if st is not None:
            state["store"] = st
            state["active_graphs"] = list(case["graphs"])
        if case.get("gel") is not None:
            edges = {}
            for a, b, w in case["gel"]:
                k = f"{a}→{b}" if a <= b else f"{b}→{a}"
                edges[k] = {"id": k, "src": min(a, b), "dst": max(a, b), "weight": w, "rel": "coact"}
            state["graph"] = {"nodes": {}, "edges": edges, "meta": {}}
        if shared is not None:
            shared.update(idx=idx, st=st, state=state)
    eps = idx._eps
    eps_snapshot = [(e.get("id"), e.get("owner"), e.get("ts"), e.get("text"), None if e.get("vec_full") is None else np.asarray(e["vec_full"]).tobytes(), repr(e.get("aux"))) for e in eps]
    order = list(case["graphs"])
    gel0 = copy.deepcopy(state.get("graph"))
    now_iso = iso_from_ms(NOW_MS)
    ctx = NS(cfg=cfg, config=cfg, agent_id=case["agent"], now=now_iso, now_ms=NOW_MS, turn_id=1)
    if case.get("slice") is not None:
        ctx.slice_budgets = dict(case["slice"])
    t1 = NS(graph_deltas=[{"op": "upsert_node", "id": i} for i in case["t1_ids"]])
    fp0 = store_fingerprint(st) if st is not None else None
    cfg0 = copy.deepcopy(cfg)

    layers = []  # (name, ids_in, ids_out)

    def wrap(name, fn, in_pos):
        def w(*a, **k):
            inp = ids_of(a[in_pos])
            r = fn(*a, **k)
            items = r[0] if isinstance(r, tuple) else r
            layers.append((name, inp, ids_of(items)))
            return r
        return w

    with patched(core, "_apply_quality", wrap("apply_quality", core._apply_quality, 2)), \
            patched(qual, "rerank_with_gel", wrap("rerank_with_gel", qual.rerank_with_gel, 2)), \
            patched(qops, "fuse", wrap("fuse", qops.fuse, 1)), \
            patched(qops, "maybe_apply_mmr", wrap("mmr", qops.maybe_apply_mmr, 0)):
        try:
            r = core.t2_semantic(ctx, state, case["query"], t1)
        except Exception as ex:
            sess.violation("raises:" + type(ex).__name__, case, repr(ex)[:300])
            return
    sess.count("t2_calls")
    got = [(str(x.id), float(x.score)) for x in r.retrieved]
    gids = [g[0] for g in got]
    k = int(t2c["k_retrieval"])
    thr = float(t2c["sim_threshold"])
    scope = str(t2c.get("owner_scope", "any")).lower()
    owner = {"agent": case["agent"], "world": "world"}.get(scope)

    # --- purity
    if st is not None and store_fingerprint(st) != fp0:
        sess.violation("store-modified", case, None)
    if cfg0 != cfg:
        sess.violation("config-mutated", case, None)
    if gel0 != state.get("graph"):
        sess.violation("gel-graph-mutated", case, None)
    now_snapshot = [(e.get("id"), e.get("owner"), e.get("ts"), e.get("text"), None if e.get("vec_full") is None else np.asarray(e["vec_full"]).tobytes(), repr(e.get("aux"))) for e in idx._eps]
    if now_snapshot != eps_snapshot:
        sess.violation("memory-mutated", case, None)

    # --- (1) invariants
    if len(gids) > k:
        sess.violation("more-than-k", case, {"k": k, "n": len(gids)})
    if len(set(gids)) != len(gids):
        sess.violation("duplicate-ids", case, gids)
    q_text = (case["query"] or "").strip()
    labs = []
    if st is not None:
        nodeids = sorted(set(case["t1_ids"]))
        for gid in order:
            g = st.get_graph(gid)
            for nid in nodeids:
                nd = g.nodes.get(nid)
                if nd and nd.label:
                    labs.append(nd.label)
    seen_l, labs_u = set(), []
    for l in labs:
        if l not in seen_l:
            seen_l.add(l)
            labs_u.append(l)
    if labs_u:
        q_text = (q_text + " " + " ".join(sorted(labs_u))).strip()
    qv = BGEAdapter(dim=DIM).encode([q_text])[0]
    by_id = {}
    for e in eps:
        by_id.setdefault(str(e.get("id")), []).append(e)
    now = piso(now_iso)
    tiers = list(t2c.get("tiers", []))
    recent = int(t2c.get("exact_recent_days", 30))
    for gid_, sc in got:
        cands = [e for e in by_id.get(gid_, []) if owner is None or e.get("owner") == owner]
        if not cands:
            if gid_ in by_id:
                sess.violation("owner-scope-leak", case, {"id": gid_, "owners": [e.get("owner") for e in by_id[gid_]], "scope": scope, "agent": case["agent"]})
            else:
                sess.violation("unknown-episode", case, {"id": gid_})
            continue
        if sc < thr:
            sess.violation("below-threshold", case, {"id": gid_, "score": sc, "thr": thr})
        cs = [cos(qv, e["vec_full"]) for e in cands if e.get("vec_full") is not None]
        if not any(abs(sc - c_) <= 1e-6 for c_ in cs):
            sess.violation("score-not-cosine", case, {"id": gid_, "score": sc, "cosines": cs})
        # tier rule: if only the exact tier is configured the hit must be inside the window
        real_tiers = [t for t in tiers if t in ("exact_semantic", "cluster_semantic", "archive")]
        if real_tiers == ["exact_semantic"] and recent > 0:
            cut = now - dtm.timedelta(days=recent)
            if not any((piso(e.get("ts") or "") is None) or piso(e.get("ts")) >= cut for e in cands):
                sess.violation("exact-tier-outside-window", case, {"id": gid_, "ts": [e.get("ts") for e in cands]})
    # --- (3) rerank layers are permutations
    for name, inp, outp in layers:
        sess.count("layer_calls:" + name)
        if name == "fuse":
            ok = sorted(inp) == sorted(outp)
        else:
            ok = sorted(inp) == sorted(outp)
        if not ok:
            sess.violation("rerank-not-permutation:" + name, case, {"in": inp, "out": outp})
        elif inp != outp:
            sess.count("layer_reordered:" + name)
    aq = [l for l in layers if l[0] == "apply_quality"]
    if len(aq) != 1:
        sess.inconclusive_because("apply_quality wrapper saw %d calls" % len(aq))
        return
    pre_q = aq[0][1]
    if aq[0][2] != gids:
        sess.violation("result-differs-from-quality-output", case, {"q_out": aq[0][2], "result": gids})

    # --- (2) reference model for the pre-quality order
    c = dict(k=k, thr=thr, tiers=tiers, recent=recent, topm=int(t2c.get("clusters_top_m", 3)), scope=scope,
             a=float(t2c["ranking"]["alpha_sim"]), b=float(t2c["ranking"]["beta_recency"]), g=float(t2c["ranking"]["gamma_importance"]))
    exp = model_walk(eps, qv, c, case["agent"], now)
    exp_ids = [e[0] for e in exp]
    sess.count("model_comparisons")
    if exp_ids != pre_q:
        # tolerate disagreements confined to near-ties (float32 cosine / combined score within 1e-6)
        tie = False
        if sorted(exp_ids) == sorted(pre_q):
            comb = {i: cmb for i, _, cmb in exp}
            # a *near* tie (different floats within 1e-6) is undecidable; an exact tie must be in id order
            tie = all(a_ == b_ or (comb[a_] != comb[b_] and abs(comb[a_] - comb[b_]) < 1e-6) for a_, b_ in zip(exp_ids, pre_q))
        if tie:
            sess.count("inconclusive_tie_cases")
        else:
            sess.violation("model:tier-walk-or-ranking", case, {"got": pre_q, "model": exp_ids})
    else:
        sc_model = {i: s for i, s, _ in exp}
        for i, s in got:
            if i in sc_model and abs(sc_model[i] - s) > 1e-6:
                sess.violation("model:score", case, {"id": i, "got": s, "model": sc_model[i]})

    # --- (4) residuals
    resid = [d.get("id") for d in r.graph_deltas_residual]
    cap = int(t2c.get("residual_cap_per_turn", 32))
    sl = (case.get("slice") or {}).get("t2_k")
    used = list(r.retrieved) if sl is None else list(r.retrieved)[:max(0, int(sl))]
    if r.metrics.get("k_used") != len(used):
        sess.violation("k_used-metric", case, {"metric": r.metrics.get("k_used"), "expected": len(used)})
    lm = label_map_of(case["graphs"], order) if st is not None else {}
    if len(resid) > cap:
        sess.violation("residual-cap-exceeded", case, {"n": len(resid), "cap": cap})
    if resid != sorted(set(resid)):
        sess.violation("residual-order-or-duplicate", case, resid)
    used_texts = [(u.text or "").lower() for u in used]
    all_nodes = set()
    for gid in order:
        all_nodes.update(n[0] for n in case["graphs"][gid]["nodes"])
    for nid in resid:
        if nid not in all_nodes:
            sess.violation("residual-nonexistent-node", case, nid)
            continue
        labels = [lb for lb, n_ in lm.items() if n_ == nid]
        if not any(lb and lb in t for lb in labels for t in used_texts):
            sess.violation("residual-label-not-in-used-hits", case, {"node": nid, "labels": labels, "used": used_texts[:5], "slice": sl})
    # exact residual model
    chosen, seen_n = [], set()
    for t in used_texts:
        if len(chosen) >= cap:  # "within the residual cap": a cap of 0 allows no nudge at all
            break
        for lb, nid in lm.items():
            if not lb:
                continue
            if lb in t and nid not in seen_n:
                chosen.append(nid)
                seen_n.add(nid)
                if len(chosen) >= cap:
                    break
        if len(chosen) >= cap:
            break
    if sorted(set(chosen)) != resid:
        sess.violation("model:residual", case, {"got": resid, "model": sorted(set(chosen))})
    if resid:
        sess.count("cases_with_residuals")
    if scope == "agent" and got:
        sess.count("agent_scoped_nonempty_results")
    sess.case(case, nontrivial=len(got) >= 2, sample={"query": case["query"], "got": got[:5], "tiers": tiers, "scope": scope})


def check_history(case, sess: Session):
    """The case's own call, then follow-up calls on the *same* index / store objects with another agent,
    scope, tier list or query (a retrieval result must not depend on what was asked before)."""
    shared = {}
    check_case(case, sess, shared)
    if "idx" not in shared:
        return
    for fu in case.get("followups", []):
        c2 = dict(case)
        c2["agent"] = fu.get("agent", case["agent"])
        c2["query"] = fu.get("query", case["query"])
        c2["t2"] = {**case["t2"], **fu.get("t2", {})}
        c2["followups"] = []
        c2["history_prefix"] = {"agent": case["agent"], "query": case["query"], "t2": case["t2"]}
        if fu.get("relabel") and shared.get("st") is not None and case.get("graphs"):
            # the labels rotate among the nodes of each graph (upserts under the same ids): the labels T2 matches against the
            # used hits are those the store holds NOW
            from clematis.engine.types import Node
            cur_graphs = copy.deepcopy(shared.get("graphs_now") or case["graphs"])
            for gid, g in cur_graphs.items():
                labs = [n[1] for n in g["nodes"]]
                k_ = fu["relabel"] % max(1, len(labs))
                labs = labs[k_:] + labs[:k_]
                for n, lb in zip(g["nodes"], labs):
                    n[1] = lb
                if g["nodes"]:
                    shared["st"].upsert_nodes(gid, [Node(id=n[0], label=n[1], attrs=({"tags": list(n[2])} if len(n) > 2 and n[2] is not None else {})) for n in g["nodes"]])
            shared["graphs_now"] = cur_graphs
            sess.count("followups_after_nodes_were_renamed")
        if shared.get("graphs_now"):
            c2["graphs"] = copy.deepcopy(shared["graphs_now"])
        check_case(c2, sess, shared)


def _chunk(args):
    tier, seed, i, n = args
    from vlib import bootstrap

    bootstrap.init()
    rng = random.Random(f"C11/{seed}/{i}")
    sess = Session.worker(PID, tier, seed)
    for _ in range(n):
        case = gen_case(rng, big=(tier == "thorough" and rng.random() < 0.2))
        try:
            check_history(case, sess)
        except Exception as ex:
            import traceback
            sess.inconclusive_because(f"harness error {type(ex).__name__}: {ex} @ {traceback.format_exc()[-300:]}")
    return sess.export()


def main(tier: str, seed: int):
    sess = Session(PID, tier, seed, level="exploration", rule=RULE)
    sess.assume("ctx.now is always supplied (logical clock); episodes with unparsable timestamps are not generated (the code falls back to the wall clock for them; C01 owns that)")
    sess.assume("in-memory index only (lancedb not installed); reader-backed embed_store path not exercised")
    sess.assume("model disagreements confined to combined-score near-ties (<1e-6) are counted as inconclusive ties, not violations")
    total = 8000 if tier == "quick" else 600000
    nchunks = par.NWORK * (1 if tier == "quick" else 4)
    per = max(1, total // nchunks)
    for ex in par.pmap(_chunk, [(tier, seed, i, per) for i in range(nchunks)]):
        sess.merge(ex)
    sess.require("t2_calls", 500)
    sess.require("model_comparisons", 500)
    sess.require("layer_calls:rerank_with_gel", 20)
    sess.require("layer_calls:fuse", 20)
    sess.require("layer_calls:mmr", 10)
    sess.require("cases_with_residuals", 20)
    sess.require("agent_scoped_nonempty_results", 20)
    sess.require("followup_calls_on_shared_index", 200)
    sess.require("followups_after_nodes_were_renamed", 50)
    sess.finish()


def replay(body, tier, seed):
    sess = Session(PID, tier, seed, rule=RULE)
    sess.replay_mode = True
    case = unjson(body["case"])
    if case.get("history_prefix"):
        hp = case["history_prefix"]
        first = dict(case, agent=hp["agent"], query=hp["query"], t2=hp["t2"], followups=[{"agent": case["agent"], "query": case["query"], "t2": case["t2"]}])
        first.pop("history_prefix")
        check_history(first, sess)
    else:
        check_history(case, sess)
    return sess.finish(exit_process=False)
