"""C19 - Reflection is gated, budgeted and cannot disturb the turn.

Monitors on real turns (plans injected through the orchestrator's t3_deliberate hook so the plan flag is
under control):
  * call counters on the reflect function (module attribute, re-imported by the orchestrator on every
    call) and on write_reflection_entries; a recording index double at state["memory_index"] (logs every
    add, can raise on the k-th); t3_reflection.jsonl line count;
  * gate table: reflection may run only if t3.allow_reflection AND plan.reflection AND not dry-run;
    otherwise zero calls / adds / log lines;
  * when it runs: adds <= ops cap, summary whitespace tokens <= summary_tokens, id and ts recomputed from
    (agent, turn, slot, text, logical clock) and identical in a replay under a different virtual clock;
  * twin run with allow_reflection=false: canonical t1/t2/t4/apply/turn/health bytes and utterance equal;
  * failure grid: reflect raising (10 exception types), index.add raising, telemetry writer raising,
    fixture file missing / empty / corrupt / miss / empty completion, timeout (virtual perf_counter beyond
    time_ms_reflection): no add may happen (on error / missing fixture / timeout) and the turn must complete.
"""
from __future__ import annotations

import copy
import hashlib
import importlib
import json
import os
import random

from vlib import par
from vlib.session import Session, unjson, chash

PID = "C19"
RULE = ("one evaluation = one real turn under one (gate combination, settings, failure injection); non-trivial = the "
        "reflection actually ran (reflect entered) or a failure injection fired")
CANON = ("t1.jsonl", "t2.jsonl", "t4.jsonl", "apply.jsonl", "turn.jsonl", "health.jsonl")
EXCS = [ValueError, KeyError, TypeError, OSError, RuntimeError, MemoryError, RecursionError, AssertionError, UnicodeError, ZeroDivisionError]


class RecIndex:
    kind = "recording"

    def __init__(self, fail_at=None, exc=RuntimeError):
        self.adds = []
        self.slots = []
        self.attempts = 0
        self.fail_at = fail_at
        self.exc = exc

    def add(self, ep):
        self.attempts += 1
        if self.fail_at is not None and self.attempts == self.fail_at:
            raise self.exc("scripted index failure")
        self.adds.append(copy.deepcopy(ep))
        self.slots.append(self.attempts - 1)  # which of the offered entries this one was

    def index_version(self):
        return len(self.adds)


def gen_case(rng):
    from vlib.world import gen_world
    from vlib.cfggen import base_cfg, merge

    world = gen_world(rng, ngraphs=(1, 2), neps=(3, 12))
    cfg = base_cfg(rng)
    cfg["t2"]["sim_threshold"] = -1.0
    backend = rng.choice(["rulebased", "rulebased", "llm"])
    summary_tokens = rng.choice([0, 1, 3, 8, 128, 256])
    ops = rng.choice([0, 1, 2, 5, None])
    refl = {"backend": backend, "summary_tokens": summary_tokens, "embed": rng.random() < 0.6, "log": rng.random() < 0.8, "topk_snippets": rng.choice([0, 1, 3, 5])}
    cfg = merge(cfg, {"t3": {"reflection": refl}})
    budgets = {"time_ms_reflection": rng.choice([1, 50, 6000])}
    if ops is not None:
        budgets["ops_reflection"] = ops
    cfg = merge(cfg, {"scheduler": {"budgets": budgets}})
    if rng.random() < 0.3:
        # the older top-level budgets block next to it (as the shipped config file carries it), with looser values: the
        # scheduler's budgets are the ones that bind
        cfg["budgets"] = {"time_ms_reflection": 6000, "ops_reflection": 5}
    tpl = rng.choice([None, "{labels}!!! ... ??? {intent}", "Ünïcödé {labels} — {snippets_text}", "   ", "word " * 300, "{snippets_text}",
                      # words separated by white space that is not ASCII (NBSP, ideographic space, em space, narrow NBSP, LS, NEL)
                      "alpha\u00a0beta\u3000gamma\u2003delta\u202fepsilon\u2028zeta\u0085eta {labels}", "{labels}\u00a0{intent}\u3000{snippets_text}\u2003tail\u00a0end"])
    if tpl is not None and tpl.strip():
        cfg["t3"]["dialogue"] = {"template": tpl, "include_top_k_snippets": 3}
    cfg["t3"]["tokens"] = rng.choice([1, 16, 256, 512])
    fault = rng.choice([None, None, None, "reflect-raises", "index-add-raises", "telemetry-raises", "timeout", "fixture-missing", "fixture-empty-file",
                        "fixture-corrupt", "fixture-miss", "fixture-empty-completion", "no-index", "reflect-overproduces", "partial-write-failure", "partial-write-failure"])
    if fault and fault.startswith("fixture"):
        backend = "llm"
        cfg["t3"]["reflection"]["backend"] = "llm"
    if rng.random() < 0.3:
        cfg["t4"]["enabled"] = False  # T4 kill switch: the dry-run exit inside the T4 block is not reached
    return {"world": world, "cfg": cfg, "allow": rng.random() < 0.7, "plan_flag": rng.random() < 0.7, "dry_run": rng.random() < 0.15, "backend": backend,
            # how the plan's request reaches the gate: Plan.reflection, or the flag the LLM planner path stashes on the state
            "flag_via": rng.choice(["plan", "plan", "stash"]),
            "fault": fault, "exc": rng.randrange(len(EXCS)), "agent": rng.choice(["A", "B", "Ünï"]), "turn": rng.choice([0, 0, 1, 7, 12, "0", "t7"]),
            "text": rng.choice(["hello world", "moon river cat", "", "!!!", "tree " * 50, "moon\u00a0river\u3000cat\u2003tree",
                                # single letters whose compatibility (NFKC) form is several words / a blank plus a mark
                                "\ufdfa", "\ufdfa \ufdfb moon", "a\u037ab \ufe70c"]), "completion": rng.choice(["short summary", "multi\nline\tcompletion with   spaces", "w " * 400, "ünï ✓", "\ufdfa", "sum \ufdfb \ufdfa"]),
            "clock2": {"pc_step": rng.choice([0.0, 1e-6]), "wall": rng.choice([1.0e9, 3.0e9]), "tz": rng.choice([None, "JST-9", "PST8PDT", "UTC0", "NST3:30"])},
            "fail_at": rng.choice([1, 1, 2, 3]), "clock_back": rng.random() < 0.5, "now_ms_float": rng.random() < 0.2, "timeout_over_ms": rng.choice([500.0, 500.0, 0.25, 0.375, 0.01, 0.49, 1.0])}


def expected_id(agent, turn, slot, text):
    h = hashlib.sha256()
    h.update(str(agent).encode())
    h.update(b"|")
    h.update(str(turn).encode())
    h.update(b"|")
    h.update(str(slot).encode())
    h.update(b"|")
    h.update(text.encode())
    return f"refl-{turn}-{agent}-{slot}-{h.hexdigest()[:12]}"


def run_once(case, allow, fixture_lines, sess, vclock=None, record_key=None, then_closed=None, tz=None):
    """One turn; returns dict of observations."""
    import clematis.engine.orchestrator.core as core
    import clematis.engine.orchestrator.reflection as RW
    import clematis.adapters.llm as llm
    from vlib.turn import TurnEnv, VClock
    from vlib.harness import patched, iso_from_ms, NOW_MS
    from vlib import bootstrap
    import contextlib

    bootstrap.reset_globals()
    if tz is not None:
        # another process time zone for this run (POSIX TZ string, no tz database needed)
        import time as _t
        old_tz = os.environ.get("TZ")
        os.environ["TZ"] = tz
        _t.tzset()
        try:
            return run_once(case, allow, fixture_lines, sess, vclock=vclock, record_key=record_key, then_closed=then_closed, tz=None)
        finally:
            if old_tz is None:
                os.environ.pop("TZ", None)
            else:
                os.environ["TZ"] = old_tz
            _t.tzset()
    cfg = copy.deepcopy(case["cfg"])
    cfg["t3"]["allow_reflection"] = allow
    refl_mod = importlib.import_module("clematis.engine.stages.t3.reflect")
    env = None
    fault = case["fault"] if allow else None
    try:
        from vlib.harness import tmpdir
        import tempfile
        fx_dir = tempfile.mkdtemp(prefix="c19fx_", dir="/var/tmp")
        fx_path = os.path.join(fx_dir, "fixtures.jsonl")
        if case["backend"] == "llm":
            cfg["t3"]["llm"] = {"provider": "fixture", "fixtures": {"enabled": True, "path": fx_path}}
            if fault == "fixture-missing":
                pass
            elif fault == "fixture-empty-file":
                open(fx_path, "w").close()
            elif fault == "fixture-corrupt":
                open(fx_path, "w").write("{not json\n")
            else:
                with open(fx_path, "w", encoding="utf-8") as f:
                    for ln in fixture_lines or []:
                        f.write(json.dumps(ln) + "\n")
                    f.write(json.dumps({"prompt_hash": "0" * 64, "completion": "unrelated"}) + "\n")
        try:
            env = TurnEnv(cfg, copy.deepcopy(case["world"]))
        except Exception as ex:
            return {"rejected": str(ex)[:120]}
        if fault and fault.startswith("fixtures-disabled") and case["backend"] == "llm":
            # on the live configuration (the validator refuses this combination in a file; the engine's functions take
            # plain mappings and the repository's own tests hand them over unvalidated)
            if fault.endswith("false"):
                env.cfg["t3"]["llm"]["fixtures"]["enabled"] = False
            else:
                env.cfg["t3"]["llm"]["fixtures"].pop("enabled", None)
        with env:
            # "partial-write-failure": several entries offered (see reflect-overproduces), the index refuses one of them
            idx = RecIndex(fail_at=1 if fault == "index-add-raises" else (case.get("fail_at", 1) if fault == "partial-write-failure" else None), exc=EXCS[case["exc"]])
            if fault != "no-index":
                env.state["memory_index"] = idx
            calls = {"reflect": 0, "write": 0, "telemetry": 0, "keys": []}
            real_reflect = refl_mod.reflect
            real_write = RW.write_reflection_entries
            real_tel = core.log_t3_reflection
            real_gen = llm.FixtureLLMAdapter.generate

            def reflect_w(bundle, cfg_root, embedder=None):
                calls["reflect"] += 1
                if fault == "reflect-raises":
                    raise EXCS[case["exc"]]("scripted reflect failure")
                res_ = real_reflect(bundle, cfg_root, embedder=embedder)
                if fault in ("reflect-overproduces", "partial-write-failure"):
                    # a backend that hands back more entries than the ops cap allows (the writer enforces the cap itself)
                    try:
                        base_ = list(res_.memory_entries or [])
                        extra_ = [dict(base_[0] if base_ else {"text": ""}) for j in range(4)]  # copies: their summaries are within the limit
                        res_ = type(res_)(summary=res_.summary, memory_entries=base_ + extra_, metrics=res_.metrics)
                    except Exception:
                        pass
                return res_

            def write_w(ctx, state, cfg_root, result):
                calls["write"] += 1
                return real_write(ctx, state, cfg_root, result)

            def tel_w(*a, **k):
                calls["telemetry"] += 1
                if fault == "telemetry-raises":
                    raise EXCS[case["exc"]]("scripted telemetry failure")
                return real_tel(*a, **k)

            def gen_w(self, prompt, max_tokens, temperature):
                calls["keys"].append(llm._prompt_hash(prompt))
                return real_gen(self, prompt, max_tokens, temperature)

            # elapsed time is an input of the reflection time budget: keep it at zero on a virtual clock unless the
            # case is about the timeout (real elapsed time may exceed a 1 ms budget on a loaded machine)
            vc = vclock if vclock is not None else VClock(pc_step=0.0)
            if fault == "timeout":
                # the reflection costs more than its budget on the virtual clock: by half a second, or by a fraction of a
                # millisecond (any overrun is a timeout)
                over = case.get("timeout_over_ms", 500.0)
                vc = VClock(pc_step=(float(cfg["scheduler"]["budgets"]["time_ms_reflection"]) + over) / 1000.0)
            extra = {"_dry_run_until_t4": True} if case["dry_run"] else None
            plan = {"ops": [{"kind": "Speak", "max_tokens": cfg["t3"]["tokens"]}, {"kind": "EditGraph"}], "deltas": [["node", "n:a", "weight", 0.2, 1]],
                    "reflection": case["plan_flag"] and case.get("flag_via", "plan") == "plan"}
            if case.get("flag_via") == "stash":
                env.state["_planner_reflection_flag"] = bool(case["plan_flag"])
            with patched(refl_mod, "reflect", reflect_w), patched(RW, "write_reflection_entries", write_w), patched(core, "log_t3_reflection", tel_w), \
                    patched(llm.FixtureLLMAdapter, "generate", gen_w):
                nm_ = float(NOW_MS) if case.get("now_ms_float") else NOW_MS  # a driver may hand the logical clock over as a float
                r = env.run(case["agent"], case["text"], case["turn"], now_ms=nm_, plan=plan, vclock=vc, ctx_extra=extra)
                second = None
                if then_closed is not None and not r["exc"]:
                    # the next turn on the SAME ctx object (the repository's own tests drive several turns through one ctx),
                    # with the gate closed by `then_closed` ("plan" = not requested, "config" = not allowed)
                    n_adds, n_lines, n_reflect = len(idx.adds), len(env.records("t3_reflection.jsonl")), calls["reflect"]
                    plan2 = dict(plan, reflection=False) if then_closed == "plan" else plan
                    if then_closed == "plan":
                        env.state["_planner_reflection_flag"] = False
                    elif then_closed == "config":
                        env.cfg["t3"]["allow_reflection"] = False
                    t2n = case["turn"] + 1 if isinstance(case["turn"], int) else 2
                    later = NOW_MS + 3 * 86400000 + 5000  # the caller advanced the logical clock on its ctx
                    if case.get("clock_back"):
                        later = NOW_MS - 2 * 86400000 - 7000  # ... or set it back (a replay, another agent's earlier clock)
                    r2 = env.run(case["agent"], case["text"] + " again", t2n, now_ms=later, plan=plan2, vclock=vc, ctx_extra=extra, ctx_obj=r["ctx"])
                    second = {"exc": r2["exc"], "adds": len(idx.adds) - n_adds, "lines": len(env.records("t3_reflection.jsonl")) - n_lines, "reflect": calls["reflect"] - n_reflect,
                              "ts": [e.get("ts") for e in idx.adds[n_adds:]], "ids": [e.get("id") for e in idx.adds[n_adds:]], "texts": [str(e.get("text", "")) for e in idx.adds[n_adds:]],
                              "now_iso": iso_from_ms(later), "turn": t2n}
            logs = env.logs()
            return {"r": r, "calls": calls, "adds": idx.adds, "slots": idx.slots, "attempts": idx.attempts, "refl_lines": env.records("t3_reflection.jsonl"),
                    "canon": {k: env.canon(v) for k, v in logs.items() if k in CANON}, "line": r["line"], "now_iso": iso_from_ms(NOW_MS), "cfg": env.cfg, "second": second}
    finally:
        import shutil
        shutil.rmtree(fx_dir, ignore_errors=True)


def check_case(case, sess: Session):
    from vlib.turn import VClock

    o = run_once(case, case["allow"], None, sess)
    if "rejected" in o:
        sess.count("cfg_rejected_by_validator")
        sess.seen("rejections", o["rejected"])
        return
    # fixture "hit": second pass with the key the first pass asked for
    if case["backend"] == "llm" and case["allow"] and case["fault"] in (None, "fixture-empty-completion", "index-add-raises", "telemetry-raises", "timeout") and o["calls"]["keys"]:
        comp = "" if case["fault"] == "fixture-empty-completion" else case["completion"]
        o = run_once(case, case["allow"], [{"prompt_hash": k, "completion": comp} for k in o["calls"]["keys"]], sess)
        sess.count("fixture_hit_passes")
    sess.evaluations += 1
    sess.count("turns_run")
    sess.sample({k: case[k] for k in ("allow", "plan_flag", "dry_run", "backend", "fault", "agent", "turn", "text")} | {"reflection_cfg": case["cfg"]["t3"]["reflection"], "budgets": case["cfg"]["scheduler"]["budgets"]})
    tcase = dict(case)
    r = o["r"]
    if r["exc"]:
        sess.violation("reflection-path-aborts-turn:" + r["exc_type"], tcase, r["tb"][-400:])
        return
    should = case["allow"] and case["plan_flag"] and not case["dry_run"]
    combo = (case["allow"], case["plan_flag"], case["dry_run"])
    sess.seen("gate_combinations", combo + (case.get("flag_via", "plan"), case["cfg"]["t4"].get("enabled", True)))
    calls = o["calls"]
    if not should:
        sess.count("gate_closed_turns")
        if calls["reflect"] or calls["write"] or o["adds"] or o["attempts"] or o["refl_lines"]:
            sess.violation("reflection-ran-with-gate-closed", tcase, {"combo": combo, "reflect": calls["reflect"], "adds": len(o["adds"]), "lines": len(o["refl_lines"])})
        return
    sess.count("gate_open_turns")
    sess.nontrivial.add(chash((combo, case["fault"], case["backend"], case["cfg"]["t3"]["reflection"], case["text"])))
    if calls["reflect"] != 1:
        sess.violation("reflect-call-count", tcase, calls["reflect"])
    cfg = o["cfg"]
    cap = cfg["scheduler"]["budgets"].get("ops_reflection")
    cap = int(cap) if cap is not None else 0
    lim = int(cfg["t3"]["reflection"]["summary_tokens"])
    fault = case["fault"]
    if fault:
        sess.count("fault:" + fault)
    if len(o["adds"]) > max(cap, 0):
        sess.violation("more-entries-than-ops-cap", tcase, {"adds": len(o["adds"]), "cap": cap})
    for j_, ep in enumerate(o["adds"]):
        slot = o["slots"][j_]  # the entry's position among the entries offered to the index (an earlier one may have been refused)
        if slot != j_:
            sess.count("entries_written_after_an_earlier_one_was_refused")
        toks = len(str(ep.get("text", "")).split())
        if toks > lim:
            sess.violation("summary-exceeds-token-limit", tcase, {"tokens": toks, "limit": lim, "text": str(ep.get("text"))[:80]})
        eid = expected_id(case["agent"], case["turn"], slot, str(ep.get("text", "")))
        if ep.get("id") != eid:
            sess.violation("id-not-function-of-agent-turn-slot-text", tcase, {"got": ep.get("id"), "exp": eid})
        if ep.get("ts") != o["now_iso"] and not case.get("now_ms_float"):
            # (with a non-integer now_ms the writer falls back to its own epoch-based stamp: only its stability is judged)
            sess.violation("ts-not-from-logical-clock", tcase, {"got": ep.get("ts"), "exp": o["now_iso"]})
        sess.count("entries_written")
    writes_forbidden = fault in ("reflect-raises", "timeout", "fixture-missing", "fixture-empty-file", "fixture-corrupt", "fixture-miss", "fixture-empty-completion", "index-add-raises", "no-index")
    if writes_forbidden and o["adds"]:
        sess.violation(f"wrote-despite-{fault}", tcase, {"adds": len(o["adds"])})
    if fault in (None, "telemetry-raises", "reflect-overproduces") and cap >= 1 and case["backend"] == "rulebased" and not o["adds"]:
        # the rule-based backend always yields one entry when the cap allows it
        sess.violation("no-entry-written-although-gate-open-and-cap-allows", tcase, {"cap": cap, "calls": calls})
    if len(o["refl_lines"]) > 1:
        sess.violation("more-than-one-telemetry-line", tcase, len(o["refl_lines"]))
    for ln in o["refl_lines"]:
        if int(ln.get("summary_len", 0)) > lim:
            sess.violation("summary-exceeds-token-limit(telemetry)", tcase, ln)
    # --- replay under another clock: ids / ts / texts identical
    if fault in (None,):
        fx = [{"prompt_hash": k, "completion": case["completion"]} for k in calls["keys"]] if case["backend"] == "llm" else None
        o2 = run_once(case, True, fx, sess, vclock=VClock(pc_step=case["clock2"]["pc_step"], wall=case["clock2"]["wall"]), tz=case["clock2"].get("tz"))
        if "rejected" not in o2 and not o2["r"]["exc"]:
            sess.count("clock_replays_compared")
            a = [(e.get("id"), e.get("ts"), e.get("text"), e.get("owner"), e.get("kind")) for e in o["adds"]]
            b = [(e.get("id"), e.get("ts"), e.get("text"), e.get("owner"), e.get("kind")) for e in o2["adds"]]
            if a != b:
                sess.violation("entries-depend-on-wall-clock-or-time-zone", tcase, {"a": a[:2], "b": b[:2], "tz": case["clock2"].get("tz")})
    # --- the next turn on the same ctx object with the gate closed: nothing may be computed, written or logged
    if fault is None and o["adds"]:
        how = "plan" if chash(case) [-1] in "01234567" else "config"
        fx2 = [{"prompt_hash": k, "completion": case["completion"]} for k in calls["keys"]] if case["backend"] == "llm" else None
        o4 = run_once(case, True, fx2, sess, then_closed=how)
        sec = o4.get("second") if isinstance(o4, dict) else None
        if sec is not None and not sec["exc"]:
            sess.count("reused_ctx_gate_closed_turns")
            if sec["adds"] or sec["lines"] or sec["reflect"]:
                sess.violation("reused-ctx:stale-reflection-written-with-gate-closed", tcase, {"closed_by": how, **sec})
        elif sec is not None:
            sess.violation("reflection-path-aborts-turn:reused-ctx", tcase, sec["exc"][:200])
    # --- the next turn on the same ctx object with the gate still open and the logical clock advanced: ids and timestamps
    #     are those of the new turn
    if fault is None and o["adds"] and case["backend"] == "rulebased":
        o5 = run_once(case, True, None, sess, then_closed="open")
        sec = o5.get("second") if isinstance(o5, dict) else None
        if sec is not None and not sec["exc"] and sec["adds"]:
            sess.count("reused_ctx_gate_open_turns")
            if any(t != sec["now_iso"] for t in sec["ts"]):
                sess.violation("reused-ctx:entry-timestamp-is-the-previous-turns-clock", tcase, {"ts": sec["ts"][:2], "logical_clock_of_the_turn": sec["now_iso"]})
            exp_ids = [expected_id(case["agent"], sec["turn"], i, t) for i, t in enumerate(sec["texts"])]
            if sec["ids"] != exp_ids:
                sess.violation("id-not-function-of-agent-turn-slot-text", tcase, {"got": sec["ids"][:2], "exp": exp_ids[:2], "reused_ctx": True})
    # --- follow-up in the same process (module state survives): the same prompt again, now with the fixture gone, must
    #     write nothing; and once the fixture is back it must write again (no positive / negative memoisation of outcomes)
    if fault is None and case["backend"] == "llm" and calls["keys"] and o["adds"]:
        gone = run_once(dict(case, fault="fixture-missing"), True, None, sess)
        if "rejected" not in gone and not gone["r"]["exc"]:
            sess.count("followup:fixture-removed-after-success")
            if gone["adds"]:
                sess.violation("wrote-despite-fixture-missing-after-an-earlier-success-with-the-same-prompt", tcase, {"adds": len(gone["adds"])})
        elif "rejected" not in gone:
            sess.violation("reflection-path-aborts-turn:" + gone["r"]["exc_type"], tcase, gone["r"]["tb"][-300:])
        back = run_once(case, True, [{"prompt_hash": k, "completion": case["completion"]} for k in calls["keys"]], sess)
        if "rejected" not in back and not back["r"]["exc"]:
            sess.count("followup:fixture-back-after-failure")
            if [e.get("id") for e in back["adds"]] != [e.get("id") for e in o["adds"]]:
                sess.violation("entries-differ-after-an-intermediate-failure", tcase, {"first": [e.get("id") for e in o["adds"]], "again": [e.get("id") for e in back["adds"]]})
    # --- the fixture source switched off in the configuration (file and matching entry in place): the LLM backend has no
    #     source, which is an error of the reflection step: nothing is written
    if fault is None and case["backend"] == "llm" and calls["keys"] and o["adds"]:
        for how_ in ("false", "absent"):
            offd = run_once(dict(case, fault="fixtures-disabled:" + how_), True, [{"prompt_hash": k, "completion": case["completion"]} for k in calls["keys"]], sess)
            if "rejected" in offd:
                sess.count("fixtures_disabled_cfg_rejected")
                continue
            if offd["r"]["exc"]:
                sess.violation("reflection-path-aborts-turn:" + offd["r"]["exc_type"], tcase, offd["r"]["tb"][-300:])
                continue
            sess.count("followup:fixtures-switched-off")
            if offd["adds"]:
                sess.violation("wrote-although-the-fixture-source-is-switched-off", tcase, {"adds": len(offd["adds"]), "fixtures.enabled": how_})
    # --- twin with reflection off: canonical records and utterance equal
    off = run_once(case, False, None, sess)
    if "rejected" not in off and not off["r"]["exc"]:
        sess.count("reflection_off_twins_compared")
        if off["line"] != o["line"]:
            sess.violation("reflection-changed-utterance", tcase, {"on": o["line"], "off": off["line"]})
        if off["canon"] != o["canon"]:
            diff = [k for k in set(off["canon"]) | set(o["canon"]) if off["canon"].get(k) != o["canon"].get(k)]
            sess.violation("reflection-changed-canonical-records", tcase, {"streams": diff})


PLANNER_OUTCOMES = ("valid-true", "valid-false", "valid-nokey", "no-fixture", "invalid-json", "trailing-prose", "not-an-object", "empty")


def planner_history(rng, sess: Session):
    """The plan's request as the LLM planner policy (select_policy / run_policy) hands it over - the flag it leaves on an
    object state - over histories of planner outcomes (valid plans asking / declining, failures falling back): the gate
    follows the plan of THIS turn.  Real planner, real fixture provider, real gate function and writer."""
    import tempfile
    import shutil
    from types import SimpleNamespace as SNS
    from clematis.adapters.llm import _prompt_hash
    from clematis.engine.stages.t3 import policy as P
    from clematis.engine.orchestrator import core
    from clematis.engine.orchestrator.reflection import write_reflection_entries

    tmp = tempfile.mkdtemp(prefix="c19p_", dir=os.environ.get("VERIF_SCRATCH") or None)
    try:
        fx_path = os.path.join(tmp, "planner_fixtures.jsonl")
        allow = rng.random() < 0.8
        cfg = {"t3": {"backend": "llm", "allow_reflection": allow,
                      "reflection": {"backend": "rulebased", "summary_tokens": rng.choice([1, 8, 64]), "topk_snippets": 0, "embed": False},
                      "llm": {"provider": "fixture", "fixtures": {"enabled": True, "path": fx_path}}},
               "scheduler": {"budgets": {"time_ms_reflection": 10 ** 6, "ops_reflection": rng.choice([1, 2, 5])}}}
        outcomes = [rng.choice(PLANNER_OUTCOMES) for _ in range(rng.randint(2, 7))]
        if rng.random() < 0.5:
            k = rng.randrange(len(outcomes) - 1)
            outcomes[k] = "valid-true"  # a request, then whatever comes next
        dry = [rng.random() < 0.15 for _ in outcomes]

        def mk_ctx(turn, d=False):
            return SNS(turn_id=turn, agent_id="AgentA", now_ms=1000 * turn, cfg=cfg, config=cfg, _dry_run_until_t4=d)

        with open(fx_path, "w", encoding="utf-8") as f:
            for turn, oc in enumerate(outcomes, 1):
                body = {"plan": ["think"], "rationale": "because"}
                if oc == "valid-true":
                    comp = json.dumps({**body, "reflection": True})
                elif oc == "valid-false":
                    comp = json.dumps({**body, "reflection": False})
                elif oc == "valid-nokey":
                    comp = json.dumps(body)
                elif oc == "invalid-json":
                    comp = '{"plan": ["think"], "reflection": true'
                elif oc == "trailing-prose":
                    comp = json.dumps({**body, "reflection": True}) + " and that is my plan"
                elif oc == "not-an-object":
                    comp = json.dumps([{**body, "reflection": True}])
                elif oc == "empty":
                    comp = ""
                else:
                    continue
                f.write(json.dumps({"prompt_hash": _prompt_hash(P.make_planner_prompt(mk_ctx(turn))), "completion": comp}) + "\n")
        index = RecIndex()
        state = SNS(memory_index=index, logs=[])
        case = {"planner_outcomes": outcomes, "dry": dry, "allow": allow}
        for turn, oc in enumerate(outcomes, 1):
            ctx = mk_ctx(turn, dry[turn - 1])
            # (t3_pipeline itself hands run_policy a reduced config snapshot without t3.backend and so never selects the LLM
            # planner: the stash is produced by run_policy under the root configuration)
            out = P.run_policy(P.select_policy(cfg, ctx), {}, cfg, ctx, state=state)
            sess.evaluations += 1
            sess.count("planner_pipeline_turns")
            sess.count("planner_outcome:" + oc)
            plan = SNS(ops=[], reflection=False)  # the request, if any, travels on the state
            before = len(index.adds)
            res = core._run_reflection_if_enabled(ctx, state, plan, f"utterance of turn {turn}", SNS(retrieved=[]))
            if res is not None and getattr(res, "memory_entries", None):
                write_reflection_entries(ctx, state, cfg, res)
            wrote = len(index.adds) - before
            want = allow and oc == "valid-true" and not dry[turn - 1]
            if (res is not None) != want or (wrote > 0 and not want):
                sess.violation("gate:planner-pipeline-request-not-the-plan-of-this-turn", case,
                               {"turn": turn, "outcome": oc, "previous": outcomes[:turn - 1], "reflected": res is not None, "entries_written": wrote,
                                "expected_to_reflect": want, "flag_on_state": getattr(state, "_planner_reflection_flag", None)})
                return
            if want:
                sess.count("planner_requests_honoured")
                sess.nontrivial.add(chash(("planner", tuple(outcomes[:turn]))))
            elif turn > 1 and outcomes[turn - 2] == "valid-true":
                sess.count("planner_turns_after_a_request_that_must_not_reflect")
    finally:
        shutil.rmtree(tmp, ignore_errors=True)


def _chunk(args):
    tier, seed, i, n = args
    from vlib import bootstrap

    bootstrap.init()
    rng = random.Random(f"C19/{seed}/{i}")
    sess = Session.worker(PID, tier, seed)
    for _ in range(n):
        try:
            check_case(gen_case(rng), sess)
        except Exception as ex:
            import traceback
            sess.inconclusive_because(f"harness error {type(ex).__name__}: {ex} @ {traceback.format_exc()[-600:]}")
    for _ in range(max(4, n // 6)):
        try:
            planner_history(rng, sess)
        except Exception as ex:
            import traceback
            sess.inconclusive_because(f"harness error {type(ex).__name__}: {ex} @ {traceback.format_exc()[-600:]}")
    return sess.export()


def main(tier: str, seed: int):
    sess = Session(PID, tier, seed, level="fault_enumeration", rule=RULE)
    sess.assume("tokens are whitespace tokens; the ops cap is scheduler.budgets.ops_reflection (0 when unset, as the writer reads it)")
    sess.assume("the dry-run leg uses the documented ctx._dry_run_until_t4 contract of the batch driver's compute phase")
    total = 1000 if tier == "quick" else 60000
    nchunks = par.NWORK
    per = max(1, total // nchunks)
    for ex in par.pmap(_chunk, [(tier, seed, i, per) for i in range(nchunks)]):
        sess.merge(ex)
    sess.extra["failure_grid"] = ["reflect-raises x 10 exception types", "index-add-raises", "telemetry-raises", "timeout", "fixture-missing", "fixture-empty-file", "fixture-corrupt", "fixture-miss", "fixture-empty-completion", "no-index"]
    sess.require("turns_run", 250)
    sess.require("gate_open_turns", 80)
    sess.require("gate_closed_turns", 80)
    sess.require("entries_written", 20)
    sess.require("reflection_off_twins_compared", 60)
    sess.require("clock_replays_compared", 15)
    sess.require("planner_pipeline_turns", 150)
    sess.require("entries_written_after_an_earlier_one_was_refused", 5)
    sess.require("followup:fixtures-switched-off", 5)
    sess.require("planner_requests_honoured", 20)
    sess.require("planner_turns_after_a_request_that_must_not_reflect", 15)
    for f in ("reflect-raises", "index-add-raises", "timeout", "fixture-missing", "fixture-miss"):
        sess.require("fault:" + f, 2)
    sess.finish()


def replay(body, tier, seed):
    sess = Session(PID, tier, seed, rule=RULE, level="fault_enumeration")
    sess.replay_mode = True
    case = unjson(body["case"])
    if "planner_outcomes" in case:
        rng = random.Random(0)
        for _ in range(300):
            planner_history(rng, sess)
        return sess.finish(exit_process=False)
    check_case(case, sess)
    return sess.finish(exit_process=False)
