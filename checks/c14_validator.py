"""C14 - Config validation is total, pure, consistent, and admits only runnable configs.

Monitors:
  (1) exception-type monitor around validate_config / validate_config_api / validate_config_verbose /
      the compat form / clematis.scripts.validate.main (stdin YAML): anything but ConfigError escaping is
      a violation; the input object and the module's DEFAULTS are deep-compared before/after;
  (2) cross-API agreement: same accept/reject verdict, same message list, same normalised config, and
      the script's exit code + first stdout line (OK / CONFIG INVALID) agree; a sample also goes through
      the real CLI in a subprocess (`python -m clematis validate`);
  (3) an independent range/enumeration table re-checked on every normalised output (NaN = out of range);
  (4) validator-engine contract: every accepted config built from at most one mutation of a valid
      template (and every fully valid random config) executes two turns on three small worlds without
      raising.
Inputs: the v1 key tree (template = the validator's own normalised defaults + every optional subtree),
mutated by wrong types / NaN / inf / huge / negative / empty containers / numeric strings / subtree ->
scalar / unknown, near-miss and non-string keys at every level, 1-4 simultaneous mutations.
"""
from __future__ import annotations

import contextlib
import copy
import io
import json
import math
import os
import random
import subprocess
import sys

from vlib import par
from vlib.session import Session, unjson, chash, jsonable

PID = "C14"
RULE = ("one evaluation = one generated config pushed through all validator entry points (+ the engine for accepted "
        "single-mutation / valid-random configs); non-trivial = the config was rejected with >= 1 message or accepted and executed")

NAN, INF = float("nan"), float("inf")
JUNK = [None, True, False, "x", "", "12", "1.5", "nan", [], [1], {}, {"a": 1}, NAN, INF, -INF, -1, 0, 1, 10 ** 12, -10 ** 12, 1e-9, 0.5, 1.5, -0.5, (1, 2),
        [[]], [{}], ["t2:semantic", []], [None], ["x", {"a": 1}], {"a": []}, [[1, 2]], [NAN], ["t2:semantic", "t2:semantic"], [True], [0]]


def template():
    from configs.validate import validate_config

    t = validate_config({})
    extra = {
        "t1": {"decay": {"mode": "exp_floor", "rate": 0.6, "floor": 0.05, "alpha": 0.8}, "edge_type_mult": {"supports": 1.0, "associates": 0.6, "contradicts": 0.8},
               "iter_cap": 50, "queue_budget": 10000, "node_budget": 1.5, "radius_cap": 4, "cache": {"enabled": True, "max_entries": 512, "ttl_s": 300}},
        "t2": {"tiers": ["exact_semantic", "cluster_semantic", "archive"], "exact_recent_days": 30, "clusters_top_m": 3, "owner_scope": "any",
               "residual_cap_per_turn": 32, "reader_batch": 8192, "embed_root": "./.data/t2", "reader": {"mode": "flat"},
               "cache": {"enabled": True, "max_entries": 512, "ttl_s": 300},
               "quality": {"enabled": False, "shadow": False, "trace_dir": "logs/quality", "redact": True,
                           "normalizer": {"enabled": True, "case": "lower", "unicode": "NFKC", "stopwords": "none", "stemmer": "none", "min_token_len": 1},
                           "aliasing": {"enabled": False, "max_expansions_per_token": 2},
                           "lexical": {"enabled": True, "bm25_k1": 1.2, "bm25_b": 0.75, "stopwords": "en-basic"},
                           "fusion": {"enabled": True, "mode": "score_interp", "alpha_semantic": 0.6},
                           "mmr": {"enabled": False, "lambda": 0.5, "k": 8}, "cache": {"salt": ""}},
               "archive": {}, "lancedb": {"partitions": {"by": ["owner"], "shard_order": "lex"}}},
        "t3": {"tokens": 256, "temp": 0.7, "apply_ops": False, "dialogue": {"template": "summary: {labels}. next: {intent}", "include_top_k_snippets": 2},
               "policy": {"tau_high": 0.8, "tau_low": 0.4, "epsilon_edit": 0.1}},
        "k_surface": 32, "surface_method": "PCA", "budgets": {}, "flags": {},
        "perf": {"enabled": False, "t1": {"queue_cap": 100, "dedupe_window": 8, "cache": {"max_entries": 16, "max_bytes": 4096}, "caps": {"frontier": 16, "visited": 64}},
                 "t2": {"embed_dtype": "fp32", "embed_store_dtype": "fp32", "precompute_norms": False, "cache": {"max_entries": 16, "max_bytes": 4096},
                        "reader": {"partitions": {"enabled": False, "layout": "owner_quarter", "path": "./.data/parts", "by": ["owner"]}}},
                 "snapshots": {"compression": "none", "level": 3, "delta_mode": False, "every_n_turns": 1},
                 "metrics": {"report_memory": False}, "parallel": {"enabled": False, "max_workers": 2, "t1": False, "t2": False, "agents": False}},
    }

    def merge(a, b):
        for k, v in b.items():
            if isinstance(v, dict) and isinstance(a.get(k), dict):
                merge(a[k], v)
            else:
                a.setdefault(k, copy.deepcopy(v)) if not isinstance(v, dict) else a.__setitem__(k, copy.deepcopy(v)) if k not in a else None
        return a

    return merge(copy.deepcopy(t), extra)


def paths_of(t, pre=()):
    out = []
    for k, v in t.items():
        out.append(pre + (k,))
        if isinstance(v, dict):
            out += paths_of(v, pre + (k,))
    return out


def get_at(d, path):
    for k in path:
        d = d[k]
    return d


def set_at(d, path, val):
    for k in path[:-1]:
        if not isinstance(d.get(k), dict):
            d[k] = {}
        d = d[k]
    d[path[-1]] = val


def gen_case(rng, tmpl, all_paths, valid_base=None):
    """Returns (config, mutations) ; config starts either empty ({} + a few template values) or as the full template."""
    r = rng.random()
    if r < 0.35:
        cfg = {}
    elif r < 0.7:
        cfg = copy.deepcopy(tmpl)
    else:
        cfg = {}
        for p in rng.sample(all_paths, rng.randint(1, 8)):
            v = get_at(tmpl, p)
            set_at(cfg, p, copy.deepcopy(v))
    muts = []
    nm = rng.choice([0, 1, 1, 1, 1, 2, 3, 4])
    for _ in range(nm):
        p = rng.choice(all_paths)
        kind = rng.choice(["junk", "junk", "junk", "unknown", "nearmiss", "nonstr", "scalar_subtree", "delete", "valid_alt"])
        try:
            if kind == "junk":
                v = rng.choice(JUNK)
                set_at(cfg, p, copy.deepcopy(v))
                muts.append([list(p), "junk:" + _kind_of(v)])
            elif kind == "unknown":
                par_ = p[:-1]
                set_at(cfg, par_ + (rng.choice(["zzz_unknown", "Enabled", "max_entires", "x" * 40, "t5", "t0", "tx", "enabel", "ttl", "ma", "bad\rkey", "ff\x0ckey", "nel\x85key", "ls\u2028key", "nl\nkey", " lead", "tab\tkey", "ünï"]),), rng.choice([1, {}, "a"]))
                muts.append([list(par_), "unknown-key"])
            elif kind == "nearmiss":
                par_ = p[:-1]
                k = p[-1]
                nk = k[:-1] if len(k) > 2 else k + "x"
                set_at(cfg, par_ + (nk,), copy.deepcopy(get_at(tmpl, p)))
                muts.append([list(par_), "nearmiss-key"])
            elif kind == "nonstr":
                par_ = p[:-1]
                set_at(cfg, par_ + (rng.choice([7, None, (1, 2), True, 1.5]),), 1)
                muts.append([list(par_), "nonstring-key"])
            elif kind == "scalar_subtree":
                p = p[:rng.randint(1, len(p))]  # an interior node of the key tree (section or sub-section)
                if isinstance(get_at(tmpl, p), dict):
                    v = rng.choice([1, "x", [], None, None, True, [{"a": 1}], {}])
                    set_at(cfg, p, v)
                    muts.append([list(p), "subtree->" + _kind_of(v)])
            elif kind == "delete":
                d = cfg
                ok = True
                for k in p[:-1]:
                    if not isinstance(d, dict) or k not in d:
                        ok = False
                        break
                    d = d[k]
                if ok and isinstance(d, dict):
                    d.pop(p[-1], None)
            elif kind == "valid_alt":
                alt = VALID_ALTS.get(".".join(p))
                if alt:
                    set_at(cfg, p, rng.choice(alt))
        except Exception:
            continue
    return cfg, muts


VALID_ALTS = {
    "t1.decay.mode": ["exp_floor", "attn_quad"], "t1.queue_budget": [0, 1, 5], "t1.iter_cap": [0, 1, 3], "t1.node_budget": [0.1, 100.0], "t1.radius_cap": [0, 1, 2],
    "t2.k_retrieval": [1, 2, 64], "t2.sim_threshold": [-1.0, 0.3, 1.0], "t2.owner_scope": ["any", "agent", "world"], "t2.tiers": [["archive"], ["exact_semantic"]],
    "t2.hybrid.enabled": [True], "t2.quality.enabled": [True], "t2.quality.mmr.enabled": [True], "t3.allow_reflection": [True], "t3.max_ops_per_turn": [1, 16],
    "t3.tokens": [1, 8], "t4.enabled": [False], "t4.cache_bust_mode": ["none", "on-apply"], "t4.snapshot_every_n_turns": [1, 3], "t4.churn_cap_edges": [0, 1],
    "graph.enabled": [True], "graph.merge.enabled": [True], "graph.split.enabled": [True], "graph.promotion.enabled": [True], "scheduler.enabled": [True],
    "scheduler.policy": ["fair_queue"], "perf.enabled": [True], "perf.metrics.report_memory": [True], "perf.parallel.enabled": [True], "perf.parallel.t1": [True],
    "t2.exact_recent_days": [0, 1, 365], "t2.clusters_top_m": [1, 10], "t2.residual_cap_per_turn": [0, 1], "k_surface": [8, 32],
    "t1.cache.enabled": [False], "t2.cache.enabled": [False], "t4.cache.enabled": [False],
}


HOSTILE = ["nan", "NaN", " nan ", "-nan", "inf", "-Infinity", "1e999", "1e-999", "0x10", "1_000", "١٢", "true", "null", "", NAN, INF, -INF, 1e308, -1e308, 1e200, 10 ** 400,
           -10 ** 400, 5e-324, -0.0, 2 ** 63, 2 ** 31, -1, 0, 1, 0.5, True, False, None, [], {}, [[1]], [{"a": 1}], [None], ["x", 1], {"a": [1]}, [NAN],
           {1: 2, "x": 3}, {None: 1, "a": 0}, 0.0, [0], "0", b"bytes"]
# lists whose items are not in sorted order (a validator that "canonicalises" must do so on its own copy), and strings that
# are legal as text but malformed / positional / attribute-reaching as format templates
HOSTILE_MAPS = [{"EditGraph ": 2}, {" Speak": 1, "Speak": 2, "speak\t": 3}]  # keys that change when trimmed
HOSTILE_LISTS = [["zz", "aa"], ["t2:semantic", "a:b"], [3, 1, 2], ["b", "a", "b"]]
HOSTILE_TEXT = ["x\x00y", "\x00", "a/../b", "dir with space/sub", "ünï/中", "{", "}", "tail {", "{0}: {labels}", "{labels:>q}", "{labels!x}", "{labels.__class__}", "{labels[0]}", "{}", "%s %(x)s", "{{ {labels} }}", '{"k": "{labels}"}']
HOSTILE_NUM = [10 ** 400, -10 ** 400, 1e308, 1e200, 2 ** 63, 10 ** 18, 0, -1, 5e-324, 1e-300]


def _kind_of(v):
    if isinstance(v, float) and math.isnan(v):
        return "nan"
    if isinstance(v, float) and math.isinf(v):
        return "inf"
    if isinstance(v, bool):
        return "bool"
    if v is None:
        return "none"
    if isinstance(v, str):
        return "numstr" if v.replace(".", "").isdigit() else "str"
    if isinstance(v, (list, tuple)):
        return "list"
    if isinstance(v, dict):
        return "dict"
    if isinstance(v, (int, float)):
        if abs(v) >= 10 ** 9:
            return "huge"
        return "neg" if v < 0 else "num"
    return type(v).__name__


# ------------------------------------------------------------------------------ range table
def _rng(lo=None, hi=None, lo_open=False, hi_open=False, integer=False, none_ok=False):
    def chk(v):
        if v is None:
            return none_ok
        if isinstance(v, bool) or not isinstance(v, (int, float)):
            return False
        if isinstance(v, float) and math.isnan(v):
            return False
        if integer and not (isinstance(v, int) or float(v).is_integer()):
            return False
        if lo is not None and (v <= lo if lo_open else v < lo):
            return False
        if hi is not None and (v >= hi if hi_open else v > hi):
            return False
        return True
    return chk


def _enum(*vals):
    return lambda v: v in vals


def _bool(v):
    return isinstance(v, bool)


RANGES = {
    "t1.iter_cap": _rng(0, integer=True), "t1.queue_budget": _rng(0, integer=True), "t1.node_budget": _rng(0, lo_open=True),
    "t1.cache.max_entries": _rng(0, integer=True), "t1.cache.ttl_s": _rng(0, integer=True),
    "t2.backend": _enum("inmemory", "lancedb"), "t2.k_retrieval": _rng(1, integer=True), "t2.sim_threshold": _rng(-1.0, 1.0),
    "t2.cache.max_entries": _rng(0, integer=True), "t2.cache.ttl_s": _rng(0, integer=True),
    "t2.ranking.alpha_sim": _rng(0, 1), "t2.ranking.beta_recency": _rng(0, 1), "t2.ranking.gamma_importance": _rng(0, 1),
    "t2.hybrid.enabled": _bool, "t2.hybrid.use_graph": _bool, "t2.hybrid.anchor_top_m": _rng(1, integer=True), "t2.hybrid.walk_hops": _enum(1, 2),
    "t2.hybrid.edge_threshold": _rng(0, 1), "t2.hybrid.lambda_graph": _rng(0, 1), "t2.hybrid.damping": _rng(0, 1), "t2.hybrid.degree_norm": _enum("none", "invdeg"),
    "t2.hybrid.max_bonus": _rng(0), "t2.hybrid.k_max": _rng(1, integer=True), "t2.reader.mode": _enum("flat", "partition", "auto"),
    "t3.max_rag_loops": _enum(0, 1), "t3.max_ops_per_turn": _rng(1, 16, integer=True), "t3.backend": _enum("rulebased", "llm"), "t3.allow_reflection": _bool,
    "t3.tokens": _rng(1, integer=True), "t3.temp": _rng(0, 1), "t3.policy.tau_high": _rng(0, 1), "t3.policy.tau_low": _rng(0, 1), "t3.policy.epsilon_edit": _rng(0, 1),
    "t3.reflection.backend": _enum("rulebased", "llm"), "t3.reflection.summary_tokens": _rng(0, integer=True), "t3.reflection.topk_snippets": _rng(0, integer=True),
    "t3.llm.provider": _enum("fixture", "ollama"), "t3.llm.max_tokens": _rng(1, integer=True), "t3.llm.temp": _rng(0, 1), "t3.llm.timeout_ms": _rng(1, integer=True),
    "t4.enabled": _bool, "t4.delta_norm_cap_l2": _rng(0, lo_open=True), "t4.novelty_cap_per_node": _rng(0, 1, lo_open=True), "t4.churn_cap_edges": _rng(0, integer=True),
    "t4.weight_min": _rng(-1, 1), "t4.weight_max": _rng(-1, 1), "t4.snapshot_every_n_turns": _rng(1, integer=True), "t4.cache_bust_mode": _enum("none", "on-apply"),
    "t4.cache.max_entries": _rng(0, integer=True), "t4.cache.ttl_sec": _rng(0, integer=True),
    "graph.enabled": _bool, "graph.coactivation_threshold": _rng(0, 1), "graph.observe_top_k": _rng(1, integer=True), "graph.pair_cap_per_obs": _rng(0, integer=True),
    "graph.update.mode": _enum("additive", "proportional"), "graph.update.alpha": _rng(0, lo_open=True), "graph.update.clamp_min": _rng(None, 0), "graph.update.clamp_max": _rng(0),
    "graph.decay.half_life_turns": _rng(1, integer=True), "graph.decay.floor": _rng(0),
    "graph.merge.min_size": _rng(2, integer=True), "graph.merge.min_avg_w": _rng(0, 1), "graph.merge.max_diameter": _rng(1, integer=True), "graph.merge.cap_per_turn": _rng(0, integer=True),
    "graph.split.weak_edge_thresh": _rng(0, 1), "graph.split.min_component_size": _rng(2, integer=True), "graph.split.cap_per_turn": _rng(0, integer=True),
    "graph.promotion.label_mode": _enum("lexmin", "concat_k"), "graph.promotion.topk_label_ids": _rng(1, integer=True), "graph.promotion.attach_weight": _rng(-1, 1),
    "graph.promotion.cap_per_turn": _rng(0, integer=True),
    "scheduler.enabled": _bool, "scheduler.policy": _enum("round_robin", "fair_queue"), "scheduler.quantum_ms": _rng(1, integer=True),
    "scheduler.budgets.t1_pops": _rng(0, integer=True, none_ok=True), "scheduler.budgets.t1_iters": _rng(0, integer=True, none_ok=True),
    "scheduler.budgets.t2_k": _rng(0, integer=True, none_ok=True), "scheduler.budgets.t3_ops": _rng(0, integer=True, none_ok=True),
    "scheduler.budgets.time_ms_reflection": _rng(1, integer=True, none_ok=True), "scheduler.budgets.ops_reflection": _rng(0, integer=True, none_ok=True),
    "scheduler.budgets.wall_ms": _rng(1, integer=True, none_ok=True), "scheduler.fairness.max_consecutive_turns": _rng(1, integer=True), "scheduler.fairness.aging_ms": _rng(0, integer=True),
}


def check_ranges(norm):
    bad = []
    for path, chk in RANGES.items():
        d = norm
        ok = True
        for k in path.split("."):
            if not isinstance(d, dict) or k not in d:
                ok = False
                break
            d = d[k]
        if ok and not chk(d):
            bad.append((path, d))
    try:
        if norm["t4"]["weight_min"] >= norm["t4"]["weight_max"]:
            bad.append(("t4.weight_min<weight_max", None))
    except Exception:
        pass
    return bad


# ------------------------------------------------------------------------------ oracles
def canon(o):
    return json.dumps(jsonable(o), sort_keys=True, default=repr)


def deep_repr(o):
    """Type-exact structural repr that does not equate 1/True/1.0 and keeps key types."""
    if isinstance(o, dict):
        return "{" + ",".join(f"{type(k).__name__}:{k!r}=>{deep_repr(v)}" for k, v in o.items()) + "}"
    if isinstance(o, (list, tuple)):
        return type(o).__name__ + "[" + ",".join(deep_repr(v) for v in o) + "]"
    return f"{type(o).__name__}:{o!r}"


def api_round(cfg, sess, case):
    """Run all in-process entry points; returns (accepted: bool|None, normalized|None, messages)."""
    import configs.validate as V
    from clematis.errors import ConfigError

    d0 = deep_repr(V.DEFAULTS)
    outs = {}
    for name in ("validate_config", "validate_config_api", "validate_config_verbose", "compat"):
        c = copy.deepcopy(cfg)
        before = deep_repr(c)
        try:
            if name == "validate_config":
                r = V.validate_config(c)
                outs[name] = ("ok", r, [])
            elif name == "validate_config_api":
                ok, errs, norm = V.validate_config_api(c)
                outs[name] = ("ok" if ok else "rej", norm, list(errs))
            elif name == "validate_config_verbose":
                norm, warns = V.validate_config_verbose(c)
                outs[name] = ("ok", norm, [])
            else:
                errs, warns = V.validate_config(c, strict=False)
                outs[name] = ("ok" if not errs else "rej", None, list(errs))
        except ConfigError as e:
            msg = str(e)  # verbatim: the raising form, the tuple forms and the CLI must agree to the character
            outs[name] = ("rej", None, msg.split("\n") if msg.strip() else ["invalid configuration"])
        except Exception as ex:
            import traceback
            tb = traceback.extract_tb(ex.__traceback__)
            where = tb[-1].name if tb else "?"
            sess.violation(f"validator-raises:{type(ex).__name__}@{where}", case, {"entry": name, "exc": repr(ex)[:200]})
            outs[name] = ("raise", None, [])
        if deep_repr(c) != before:
            sess.violation("validator-mutates-input", case, {"entry": name})
    if deep_repr(V.DEFAULTS) != d0:
        sess.violation("validator-mutates-DEFAULTS", case, None)
    verdicts = {k: v[0] for k, v in outs.items()}
    if "raise" in verdicts.values():
        return None, None, []
    if len(set(verdicts.values())) != 1:
        sess.violation("entry-points-disagree-on-verdict", case, verdicts)
        return None, None, []
    ok = verdicts["validate_config"] == "ok"
    if ok:
        n0 = deep_repr(outs["validate_config"][1])
        for k in ("validate_config_api", "validate_config_verbose"):
            if deep_repr(outs[k][1]) != n0:
                sess.violation("entry-points-disagree-on-normalised-config", case, {"entry": k})
    else:
        m0 = outs["validate_config"][2]
        for k in ("validate_config_api", "compat"):
            if outs[k][2] != m0:
                sess.violation("entry-points-disagree-on-messages", case, {"entry": k, "a": m0[:3], "b": outs[k][2][:3]})
    return ok, outs["validate_config"][1], outs["validate_config"][2]


def yaml_able(o):
    if isinstance(o, dict):
        return all(isinstance(k, str) and yaml_able(v) for k, v in o.items())
    if isinstance(o, list):
        return all(yaml_able(v) for v in o)
    if isinstance(o, tuple):
        return False
    return True


def script_round(cfg, ok, msgs, sess, case):
    import yaml
    import clematis.scripts.validate as SV

    if not yaml_able(cfg):
        return
    text = yaml.safe_dump(cfg, allow_unicode=True)
    try:
        back = yaml.safe_load(text) or {}
    except Exception:
        return
    if deep_repr(back) != deep_repr(cfg):
        return  # YAML does not round-trip this object (e.g. NaN key order); skip the script comparison
    old_in, old_out, old_err = sys.stdin, sys.stdout, sys.stderr
    sys.stdin, sys.stdout, sys.stderr = io.StringIO(text), io.StringIO(), io.StringIO()
    try:
        try:
            rc = SV.main(["validate", "-"])
        except SystemExit as se:
            rc = se.code
        except Exception as ex:
            sys.stdin, sys.stdout, sys.stderr = old_in, old_out, old_err
            sess.violation(f"script-raises:{type(ex).__name__}", case, repr(ex)[:200])
            return
        out = sys.stdout.getvalue()
    finally:
        sys.stdin, sys.stdout, sys.stderr = old_in, old_out, old_err
    sess.count("script_main_runs")
    # the script prints one message per LF-terminated line; only LF separates lines (a key name may carry U+2028, FF, ...)
    lines_ = out.split("\n")
    if lines_ and lines_[-1] == "":
        lines_.pop()
    first = lines_[0] if lines_ else ""
    if ok:
        if rc != 0 or first != "OK":
            sess.violation("script-disagrees(accepted config)", case, {"rc": rc, "first": first[:80]})
    else:
        if rc != 1 or first != "CONFIG INVALID":
            sess.violation("script-disagrees(rejected config)", case, {"rc": rc, "first": first[:80]})
        elif lines_[1:] != msgs:
            sess.violation("script-disagrees-on-messages", case, {"script": lines_[1:4], "api": msgs[:3]})


WORLDS = None


def small_worlds():
    global WORLDS
    if WORLDS is None:
        g = {"g0": {"nodes": [["n0", "hello", None], ["n1", "world", ["moon"]], ["n2", "reply", None]],
                    "edges": [["e0", "n0", "n1", 0.8, "supports"], ["e1", "n1", "n2", 0.5, "associates"], ["e2", "n2", "n0", -0.7, "contradicts"]]}}
        eps = [{"id": f"ep{i}", "owner": o, "text": t, "ts": "2023-11-10T00:00:00Z", "vec": "enc", "aux": {"importance": 0.5}}
               for i, (o, t) in enumerate([("A", "hello world again"), ("B", "secret of B hello"), ("A", "the reply was nice"), ("world", "world fact moon")])]
        # a graph at the edges of the float range (tiny / huge / denormal weights along a chain)
        gx = {"gx": {"nodes": [["x0", "hello", None], ["x1", "a", None], ["x2", "b", None], ["x3", "world", None], ["x4", "c", None], ["x5", "d", None]],
                     "edges": [["f0", "x0", "x1", 1e-200, "supports"], ["f1", "x1", "x2", 1e-200, "supports"], ["f2", "x3", "x4", 1e300, "supports"], ["f3", "x4", "x5", 5e-324, "associates"],
                               ["f4", "x2", "x3", -1e-300, "contradicts"]]}}
        WORLDS = [{"graphs": {}, "eps": []}, {"graphs": g, "eps": eps, "gel": [["ep0", "ep2", 0.6]]}, {"graphs": g, "eps": eps[:2]}, {"graphs": gx, "eps": eps[:1]}]
    return WORLDS


def engine_round(norm, sess, case, muts):
    from vlib.turn import TurnEnv
    from vlib.harness import to_ad
    from vlib import bootstrap

    for wi, w in enumerate(small_worlds()):
        bootstrap.reset_globals()
        cfgo = to_ad(copy.deepcopy(norm))
        try:
            env = TurnEnv({}, w, cfg_obj=cfgo, dim=int(norm.get("k_surface", 32) or 32))  # memory encoded at the configured width
        except Exception as ex:
            sess.inconclusive_because(f"harness could not build env: {ex}")
            return
        # an accepted value of t4.snapshot_dir itself is kept (relative names resolve inside the private directory)
        keep_sd = bool(muts) and list(muts[0][0]) == ["t4", "snapshot_dir"]
        cwd0 = os.getcwd()
        with env:
          try:
            if keep_sd:
                os.chdir(env.base)
                sess.count("engine_runs_under_the_accepted_snapshot_dir")
            else:
                try:
                    cfgo["t4"]["snapshot_dir"] = env.snap_dir
                except Exception:
                    pass
            agents = ["A", "B"] if wi == 2 else ["A"]
            for ti in range(2):
                r = env.run(agents[ti % len(agents)], "hello world moon" if ti == 0 else "reply to the world", ti + 1,
                            plan=({"ops": [{"kind": "Speak"}, {"kind": "EditGraph"}], "deltas": [["node", "n:a", "weight", 0.4, 1]], "reflection": True} if ti == 1 else None))
                sess.count("engine_turns")
                if r["exc"] and keep_sd and r["exc_type"] in ("OSError", "FileNotFoundError", "PermissionError", "NotADirectoryError", "FileExistsError", "IsADirectoryError"):
                    # the directory cannot be created HERE (the snapshot body write is not a fail-soft site): the environment's
                    # verdict, not the validator's
                    sess.count("accepted_snapshot_dir_unusable_in_this_environment")
                    return
                if r["exc"]:
                    import re
                    fn = re.findall(r'in (\w+)\n', r["tb"])
                    where = fn[-1] if fn else "?"
                    if muts:
                        mech = f"accepted-but-engine-raises:{'.'.join(map(str, muts[0][0]))}:{muts[0][1]}"
                    else:
                        mech = f"accepted-but-engine-raises:valid-config:{r['exc_type']}@{where}"
                    sess.violation(mech, case, {"exc": r["exc"][:200], "where": where, "world": wi, "turn": ti})
                    return
          finally:
            os.chdir(cwd0)


def check_case(cfg, muts, sess, engine=True, script=True, seen_norm=None):
    case = {"cfg": cfg, "muts": muts}
    sess.evaluations += 1
    sess.count("configs_validated")
    if muts:
        sess.sample({"mutations": muts, "config_top_level_keys": sorted(map(str, cfg.keys())) if isinstance(cfg, dict) else str(type(cfg))})
    ok, norm, msgs = api_round(cfg, sess, case)
    if ok is None:
        return
    if script:
        try:
            script_round(cfg, ok, msgs, sess, case)
        except ImportError:
            sess.assume("PyYAML not importable: script comparison skipped")
    if ok:
        sess.count("configs_accepted")
        bad = check_ranges(norm)
        for path, v in bad:
            kind = _kind_of(v)
            sess.violation(f"accepted-out-of-range:{path}:{kind}", case, {"value": v})
        if engine and len(muts) <= 1 and not bad:
            key = None
            if seen_norm is not None:
                key = deep_repr(norm)
            if key is None or key not in seen_norm:
                engine_round(norm, sess, case, muts)
                sess.count("configs_executed")
                if key is not None:
                    seen_norm.add(key)
            else:
                sess.count("sweep_configs_normalising_to_an_already_executed_config")
        sess.nontrivial.add(chash(case))
    else:
        sess.count("configs_rejected")
        if msgs:
            sess.nontrivial.add(chash(msgs))


def huge_int_leg(sess, tmpl, allp):
    """Integers beyond the interpreter's int->str limit (10**5000) as values and as keys: any message that echoes them
    must not turn into a ValueError.  (Kept apart from the sweep: such integers cannot be printed by the harness either, so
    the case is recorded by description.)"""
    import configs.validate as V
    from clematis.errors import ConfigError

    big = 10 ** 5000
    places = [("version",), ("k_surface",)] + [p_ for p_ in allp if p_[-1] in ("iter_cap", "k_retrieval", "half_life_turns", "max_entries", "tokens", "quantum_ms", "rate", "weight_min")][:12]
    for p_ in places:
        for where in ("value", "key"):
            cfg = {}
            try:
                set_at(cfg, p_ if where == "value" else p_[:-1] + (big,), big if where == "value" else 1)
            except Exception:
                continue
            for entry in ("validate_config", "validate_config_api", "compat"):
                sess.evaluations += 1
                sess.count("huge_int_validations")
                try:
                    if entry == "validate_config":
                        V.validate_config(cfg)
                    elif entry == "validate_config_api":
                        V.validate_config_api(cfg)
                    else:
                        V.validate_config(cfg, strict=False)
                except ConfigError:
                    pass
                except Exception as ex:
                    sess.violation(f"validator-raises:{type(ex).__name__}@huge-int-{where}", {"path": list(p_), "what": f"10**5000 as {where}", "entry": entry}, repr(ex)[:160])


def cli_case(cfg, hashseed="0"):
    """Real CLI in a subprocess; returns (rc, first line, stderr tail, remaining stdout lines)."""
    import yaml
    from vlib import bootstrap

    text = yaml.safe_dump(cfg, allow_unicode=True)
    p = subprocess.run([bootstrap.PY, "-m", "clematis", "validate", "-"], input=text.encode(), capture_output=True,
                       env=bootstrap.child_env(PYTHONHASHSEED=hashseed), cwd=bootstrap.VERIF, timeout=120)
    out = p.stdout.decode("utf-8", "replace").split("\n")
    if out and out[-1] == "":
        out.pop()
    return p.returncode, (out[0] if out else ""), p.stderr.decode("utf-8", "replace")[-300:], out[1:]


def _chunk(args):
    tier, seed, i, n, ncli = args
    from vlib import bootstrap

    bootstrap.init()
    rng = random.Random(f"C14/{seed}/{i}")
    sess = Session.worker(PID, tier, seed)
    try:
        tmpl = template()
        allp = paths_of(tmpl)
        sess.count("template_paths", len(allp) if i == 0 else 0)
        # the template itself and the empty config must be accepted and runnable
        if i == 0:
            check_case({}, [], sess)
            check_case(copy.deepcopy(tmpl), [], sess)
            huge_int_leg(sess, tmpl, allp)
        for _ in range(n):
            cfg, muts = gen_case(rng, tmpl, allp)
            check_case(cfg, muts, sess)
        # systematic sweep: every leaf of the key tree x every hostile scalar, and every interior node x every non-object
        # (one mutation of the valid template / of the empty config each, so accepted ones are also executed)
        tmpl_on = copy.deepcopy(tmpl)
        for p_on, v_on in ((("graph", "enabled"), True), (("graph", "merge", "enabled"), True), (("graph", "split", "enabled"), True), (("graph", "promotion", "enabled"), True),
                           (("t2", "hybrid", "enabled"), True), (("t2", "quality", "enabled"), True), (("t2", "quality", "mmr", "enabled"), True), (("t3", "allow_reflection"), True),
                           (("scheduler", "enabled"), True), (("perf", "enabled"), True), (("perf", "metrics", "report_memory"), True),
                           # every retrieved pair is observed by the graph layer (its caps and counters get to act)
                           (("graph", "coactivation_threshold"), 0.0), (("t2", "sim_threshold"), -1.0)):
            try:
                set_at(tmpl_on, p_on, v_on)
            except Exception:
                pass
        sweep = [(p_, v_) for p_ in allp for v_ in HOSTILE]
        sweep += [(p_, v_) for p_ in allp for v_ in HOSTILE_LISTS + HOSTILE_MAPS]
        sweep += [(p_, v_) for p_ in allp if isinstance(get_at(tmpl, p_), str) for v_ in HOSTILE_TEXT]
        interior = sorted({p_[:j] for p_ in allp for j in range(1, len(p_))})
        sweep += [(p_, v_) for p_ in interior for v_ in (None, 1, "x", [], True, {}, {1: 2, "EditGraph": 3}, {None: 1, "a": 0, 2.5: 1}, {(1, 2): 1, "b": {3: 4, "c": 5}},
                                                         # keys that change when trimmed (a map rebuilt under normalised keys while it is walked)
                                                         {"EditGraph ": 2}, {" Speak": 1, "Speak": 2, "speak\t": 3})]
        # unknown keys whose names carry line-boundary characters (they are echoed in the messages), under every section
        sweep += [(p_ + (k_,), 1) for p_ in [()] + interior for k_ in ("bad\rkey", "ff\x0ckey", "nel\x85key", "ls\u2028key", "nl\nkey")]
        # unknown keys carrying nested containers with mixed-type / non-string keys, under every section (sections that keep
        # unknown keys hand them on to the engine, which builds cache keys from whole sub-sections)
        sweep += [(p_ + ("extra_unknown",), v_) for p_ in [()] + interior for v_ in ({1: 2, "x": 3}, [{"a": 1, 2: 3}], {"k": {None: 1, "a": 0}}, {"k": [NAN]})]
        nchunks = par.NWORK
        seen_norm = set()
        # cross-field rules: two leaves of one section at once - a sibling at an ordinary non-default value while the other
        # takes the values that coerce to 0 / cannot be coerced / leave the float range (validator and CLI oracles only)
        by_sec = {}
        for p_ in allp:
            if len(p_) >= 2 and isinstance(get_at(tmpl, p_), (int, float)) and not isinstance(get_at(tmpl, p_), bool):
                by_sec.setdefault(p_[:-1], []).append(p_)
        pair_jobs = []
        for sec_, leaves_ in sorted(by_sec.items()):
            for a_ in leaves_:
                for b_ in leaves_:
                    if a_ != b_:
                        for va_ in (0.5, 3):
                            for vb_ in (0, None, "soon", [], 10 ** 400, -1, 1e308):
                                pair_jobs.append((a_, va_, b_, vb_))
        for j, (a_, va_, b_, vb_) in enumerate(pair_jobs):
            if j % nchunks != i % nchunks:
                continue
            for start in ("tmpl", "empty"):
                cfg = copy.deepcopy(tmpl) if start == "tmpl" else {}
                set_at(cfg, a_, va_)
                set_at(cfg, b_, copy.deepcopy(vb_))
                sess.count("pairwise_cases")
                check_case(cfg, [[list(b_), "pair:" + repr(vb_)[:12] + "+" + ".".join(a_[-1:]) + "=" + repr(va_)]], sess, engine=False, script=(j % 7 == 0), seen_norm=seen_norm)
        for j, (p_, v_) in enumerate(sweep):
            if j % nchunks != i % nchunks:
                continue
            starts = ("tmpl", "empty") + (("tmpl-on",) if (tier != "quick" or v_ is None or any(v_ is h or v_ == h for h in HOSTILE_NUM if type(h) is type(v_))) and len(p_) > 1 else ())
            for start in starts:
                # "tmpl-on": the template with every feature gate open, so that the gated code runs under the accepted value
                cfg = copy.deepcopy(tmpl) if start == "tmpl" else (copy.deepcopy(tmpl_on) if start == "tmpl-on" else {})
                try:
                    set_at(cfg, p_, copy.deepcopy(v_))
                except Exception:
                    continue
                sess.count("sweep_cases")
                # quick tier: the validator / script oracles see the whole sweep; the engine runs on the template-based half
                check_case(cfg, [[list(p_), "sweep:" + repr(v_)[:20]]], sess, engine=(tier != "quick" or start in ("tmpl", "tmpl-on")), seen_norm=seen_norm)
        for j_ in range(ncli):
            cfg, muts = gen_case(rng, tmpl, allp)
            if j_ % 3 == 0:
                # a typo that is equally close to several allowed keys (the hint must not depend on the process)
                cfg = {rng.choice(["t5", "t0", "tx", "perg", "grap"]): 1, "t2": {rng.choice(["cach", "tier", "rankin", "k_retrieva"]): 1}, "t4": {rng.choice(["cache_bust", "enable", "weight_mi"]): 1}}
                muts = [["", "typo-ties"]]
            elif j_ % 3 == 1:
                # many things wrong at once, of the same kind: several sub-sections that are not objects, several unknown keys,
                # several out-of-range leaves - the ORDER of the messages must not depend on the process either
                cfg = {}
                subs = sorted({p_[:-1] for p_ in allp if len(p_) >= 2})
                subs = [p_ for p_ in subs if not any(q_ != p_ and q_[:len(p_)] == p_ for q_ in subs)]
                for p_ in rng.sample(subs, min(len(subs), rng.randint(3, 19))):
                    set_at(cfg, p_, rng.choice([1, "x", [], True]))
                for p_ in rng.sample(allp, rng.randint(0, 6)):
                    d_, free = cfg, True
                    for k_ in p_[:-1]:
                        if k_ not in d_:
                            break
                        d_ = d_[k_]
                        if not isinstance(d_, dict):
                            free = False  # under one of the sections made a scalar above
                            break
                    if free:
                        set_at(cfg, p_, rng.choice([-1e9, "junk", None, [1]]))
                muts = [["", "many-faults-of-one-kind"]]
                sess.count("cli_runs_with_many_faults_of_one_kind")
            if not yaml_able(cfg):
                continue
            import yaml
            if deep_repr(yaml.safe_load(yaml.safe_dump(cfg, allow_unicode=True)) or {}) != deep_repr(cfg):
                continue
            ok, norm, msgs = api_round(cfg, Session.worker(PID), {"cfg": cfg})
            if ok is None:
                continue
            rc, first, err, rest = cli_case(cfg, hashseed=rng.choice(["0", "1", "7", "4242"]))
            sess.count("cli_subprocess_runs")
            sess.evaluations += 1
            if (ok and (rc != 0 or first != "OK")) or ((not ok) and (rc != 1 or first != "CONFIG INVALID")):
                sess.violation("cli-disagrees", {"cfg": cfg, "muts": muts}, {"rc": rc, "first": first[:80], "api_ok": ok, "stderr": err})
            elif not ok and rest != msgs:
                # a fresh process (other hash seed, no validation history) must print the messages this process computed
                sess.violation("cli-disagrees-on-messages", {"cfg": cfg, "muts": muts}, {"cli": rest[:3], "api": msgs[:3]})
    except Exception as ex:
        import traceback
        sess.inconclusive_because(f"harness error {type(ex).__name__}: {ex} @ {traceback.format_exc()[-500:]}")
    return sess.export()


def main(tier: str, seed: int):
    sess = Session(PID, tier, seed, level="exploration", rule=RULE)
    sess.assume("the engine contract is exercised on configs with at most one mutation of the valid template (so a failure is attributable to one config path) and on valid random configs; multi-mutation configs go through totality/purity/agreement only")
    sess.assume("script/CLI agreement is checked for inputs that survive a YAML round trip")
    q = tier == "quick"
    n = par.NWORK
    jobs = [(tier, seed, i, (220 if q else 11000), (12 if q else 150)) for i in range(n)]
    for ex in par.pmap(_chunk, jobs):
        sess.merge(ex)
    sess.require("configs_validated", 2000)
    sess.require("configs_accepted", 300)
    sess.require("configs_rejected", 300)
    sess.require("configs_executed", 200)
    sess.require("script_main_runs", 500)
    sess.require("cli_subprocess_runs", 10)
    sess.require("cli_runs_with_many_faults_of_one_kind", 5)
    sess.finish()


def replay(body, tier, seed):
    from vlib import bootstrap

    sess = Session(PID, tier, seed, rule=RULE)
    sess.replay_mode = True
    case = body["case"]  # keep JSON shapes (non-string keys are stringified in the replay file; see detail)
    cfg = unjson(case["cfg"])
    check_case(cfg, case.get("muts", []), sess)
    return sess.finish(exit_process=False)
