"""C17 - Scheduling is deterministic, starvation-free and budgets bind.

Monitors:
  (A) the real `next_turn` / `on_yield` driven over *all* selection/yield histories to a bounded depth
      (breadth-first over distinct scheduler states incl. per-agent wait counters) for 1-4 agents, both
      policies, allowance 1..3, aging 0/1/200, queue rotation on/off and a clock-advance alphabet; at
      every state: repeat call equal + state untouched (determinism/purity), pick is queued and
      eligible unless all are saturated (then lexmin + RESET_CONSEC), reference selection model,
      counters all zero after a reset, and an online gap monitor: no agent waits more than
      2*(n-1)*allowance+1 selections between two of its own turns.  Long random histories beyond.
  (B) `_should_yield` against an independent precedence table over the cross product of budget
      presence/values and consumed relations.
  (C) real turns with the scheduler on: stage counters vs slice budgets (T1 pops/layers per graph,
      T2 hits used, plan ops via a call-through planner hook), every boundary decision recorded by a
      call-through wrapper on `core._should_yield` and re-judged, a yield must end the turn at that
      boundary (no later-stage records), reasons/turn records consistent; elapsed time driven by a
      virtual perf_counter so quantum/wall are crossed at every boundary.
"""
from __future__ import annotations

import copy
import itertools
import random
from types import SimpleNamespace as NS

from vlib import par
from vlib.session import Session, unjson, chash

PID = "C17"
RULE = ("(A) one evaluation = one next_turn/on_yield step from a distinct scheduler state; (B) one _should_yield table row; "
        "(C) one real turn under scheduler budgets; non-trivial = a state where eligibility or aging changed the pick, "
        "a yielding turn, or a turn where a budget bound")


class Ctx:
    def __init__(self, t=0):
        self.t = t

    def now_ms(self):
        return self.t


# ------------------------------------------------------------------------------ (A)
def model_pick(q, consec, last, now, policy, aging, mct):
    if not q:
        return "", ("AGING_BOOST" if policy == "fair_queue" else "ROUND_ROBIN")
    elig = [a for a in q if consec.get(a, 0) < mct]
    if not elig:
        return min(q), "RESET_CONSEC"
    if policy == "fair_queue":
        def tier(a):
            idle = max(0, now - last.get(a, 0))
            return idle // aging if aging > 0 else 0
        best = sorted(elig, key=lambda a: (-tier(a), a))[0]
        return best, "AGING_BOOST"
    return elig[0], "ROUND_ROBIN"


def explore_sched(n, policy, mct, aging, rotate, depth, sess, fairness_mode="dict"):
    from clematis.engine import scheduler as S

    agents = [["b", "a", "c", "aa"][i] for i in range(n)]
    fairness = {"max_consecutive_turns": mct, "aging_ms": aging}
    bound = 2 * (n - 1) * mct + 1
    advances = [0] if policy != "fair_queue" or aging <= 0 else sorted({0, max(0, aging - 1), aging, 3 * aging})
    st0 = S.init_scheduler_state(agents, now_ms=0)
    if st0["queue"] != sorted(agents):
        sess.violation("init:queue-not-lex", {"agents": agents}, st0["queue"])
    # state = (queue, consec, idle per agent, waits per agent, had_turn per agent)
    def key(st, now, waits, had):
        return (tuple(st["queue"]), tuple(sorted(st["consec_turns"].items())),
                tuple(sorted((a, now - v) for a, v in st["last_ran_ms"].items())), tuple(sorted(waits.items())), tuple(sorted(had.items())))

    seen = set()
    frontier = [(st0, 0, {a: 0 for a in agents}, {a: False for a in agents}, [])]
    seen.add(key(st0, 0, frontier[0][2], frontier[0][3]))
    case_base = {"n": n, "policy": policy, "mct": mct, "aging": aging, "rotate": rotate}
    for d in range(depth):
        nxt = []
        for st, now, waits, had, path in frontier:
            for adv in advances:
                st2 = copy.deepcopy(st)
                now2 = now + adv
                ctx = Ctx(now2)
                before = copy.deepcopy(st2)
                try:
                    a1, b1, r1 = S.next_turn(ctx, st2, policy, fairness)
                    a2, b2, r2 = S.next_turn(Ctx(now2), copy.deepcopy(before), policy, dict(fairness))
                except Exception as ex:
                    sess.violation("next_turn-raises:" + type(ex).__name__, {**case_base, "path": path + [adv]}, repr(ex))
                    continue
                sess.evaluations += 1
                sess.count("scheduler_picks")
                case = {**case_base, "path": path + [adv]}
                if st2 != before:
                    sess.violation("next_turn-mutates-state", case, {"before": before, "after": st2})
                if (a1, b1, r1) != (a2, b2, r2):
                    sess.violation("next_turn-nondeterministic", case, [(a1, r1), (a2, r2)])
                if b1 != {}:
                    sess.violation("next_turn-budgets-not-empty", case, b1)
                q = st2["queue"]
                consec = st2["consec_turns"]
                elig = [a for a in q if consec.get(a, 0) < mct]
                if a1 not in q:
                    sess.violation("pick-not-queued", case, a1)
                    continue
                if elig:
                    if a1 not in elig:
                        sess.violation("pick-ineligible-while-eligible-exists", case, {"pick": a1, "consec": consec, "mct": mct})
                    if r1 == "RESET_CONSEC":
                        sess.violation("reset-while-eligible-exists", case, {"pick": a1, "consec": consec})
                else:
                    if a1 != min(q) or r1 != "RESET_CONSEC":
                        sess.violation("saturated-not-lexmin-reset", case, {"pick": a1, "reason": r1, "q": q})
                ma, mr = model_pick(q, consec, st2["last_ran_ms"], now2, policy, aging, mct)
                if (ma, mr) != (a1, r1):
                    sess.violation("model:selection", case, {"real": (a1, r1), "model": (ma, mr)})
                if elig and (a1 != q[0] or len(elig) < len(q)):
                    sess.nontrivial.add(chash((tuple(q), tuple(sorted(consec.items())), adv, policy)))
                # gap monitor (online)
                waits2 = dict(waits)
                had2 = dict(had)
                for a in agents:
                    if a == a1:
                        waits2[a] = 0
                        had2[a] = True
                    else:
                        waits2[a] += 1
                        if waits2[a] > bound:
                            mech = "starvation:gap-exceeds-bound" if had[a] else "starvation:gap-from-start-exceeds-bound"
                            sess.violation(mech, case, {"agent": a, "waited": waits2[a], "bound": bound})
                sess.extra["max_gap_seen"] = max(sess.extra.get("max_gap_seen", 0), max(waits2.values()))
                # yield bookkeeping
                reset = (r1 == "RESET_CONSEC")
                lr_before = dict(st2["last_ran_ms"])
                try:
                    S.on_yield(ctx, st2, a1, {"ms": 1}, "QUANTUM_EXCEEDED", fairness, reset=reset)
                except Exception as ex:
                    sess.violation("on_yield-raises:" + type(ex).__name__, case, repr(ex))
                    continue
                if reset:
                    sess.count("resets_observed")
                    if any(v != 0 for v in st2["consec_turns"].values()):
                        sess.violation("reset-counters-not-zero", case, st2["consec_turns"])
                else:
                    exp = dict(before["consec_turns"])
                    exp[a1] += 1
                    if st2["consec_turns"] != exp:
                        sess.violation("on_yield-counter-bookkeeping", case, {"got": st2["consec_turns"], "exp": exp})
                lr_exp = dict(lr_before)
                lr_exp[a1] = now2
                if st2["last_ran_ms"] != lr_exp:
                    sess.violation("on_yield-last-ran-bookkeeping", case, {"got": st2["last_ran_ms"], "exp": lr_exp})
                if st2["queue"] != before["queue"]:
                    sess.violation("on_yield-mutates-queue", case, st2["queue"])
                if rotate:
                    qq = st2["queue"]
                    qq.remove(a1)
                    qq.append(a1)
                k = key(st2, now2, waits2, had2)
                if k not in seen:
                    seen.add(k)
                    nxt.append((st2, now2, waits2, had2, path + [adv]))
        frontier = nxt
        if not frontier:
            sess.count("sched_fixpoints_reached")
            break
    sess.count("distinct_scheduler_states", len(seen))


def random_sched(rng, steps, sess):
    from clematis.engine import scheduler as S

    n = rng.randint(1, 4)
    agents = rng.sample(["a", "b", "c", "d", "aa", "B", "z1", "é"], n)
    policy = rng.choice(["round_robin", "fair_queue"])
    mct = rng.randint(1, 3)
    aging = rng.choice([0, 1, 7, 200])
    rotate = rng.random() < 0.5
    fairness = {"max_consecutive_turns": mct, "aging_ms": aging}
    bound = 2 * (n - 1) * mct + 1
    st = S.init_scheduler_state(agents, now_ms=0)
    now = 0
    waits = {a: 0 for a in agents}
    case = {"agents": agents, "policy": policy, "mct": mct, "aging": aging, "rotate": rotate, "random": True}
    for i in range(steps):
        now += rng.choice([0, 1, aging, 3 * aging, 1000, max(0, aging - 1)])
        ctx = Ctx(now)
        a, _, r = S.next_turn(ctx, st, policy, fairness)
        ma, mr = model_pick(st["queue"], st["consec_turns"], st["last_ran_ms"], now, policy, aging, mct)
        sess.evaluations += 1
        sess.count("scheduler_picks")
        if (a, r) != (ma, mr):
            sess.violation("model:selection", {**case, "step": i}, {"real": (a, r), "model": (ma, mr)})
            return
        for x in agents:
            waits[x] = 0 if x == a else waits[x] + 1
            if waits[x] > bound:
                sess.violation("starvation:gap-exceeds-bound", {**case, "step": i}, {"agent": x, "waited": waits[x], "bound": bound})
                return
        sess.extra["max_gap_seen"] = max(sess.extra.get("max_gap_seen", 0), max(waits.values()))
        S.on_yield(ctx, st, a, {}, "x", fairness, reset=(r == "RESET_CONSEC"))
        if rotate:
            st["queue"].remove(a)
            st["queue"].append(a)


# ------------------------------------------------------------------------------ (B)
def table_oracle(budgets, consumed):
    el = consumed.get("ms", 0)
    if "wall_ms" in budgets and el >= budgets["wall_ms"]:
        return "WALL_MS"
    for k, name in (("t1_iters", "BUDGET_T1_ITERS"), ("t1_pops", "BUDGET_T1_POPS"), ("t2_k", "BUDGET_T2_K"), ("t3_ops", "BUDGET_T3_OPS")):
        if budgets.get(k) is not None and consumed.get(k) is not None and consumed.get(k) == budgets.get(k):
            return name
    if el >= budgets.get("quantum_ms", 20):
        return "QUANTUM_EXCEEDED"
    return None


def should_yield_table(sess, full):
    import clematis.engine.orchestrator.core as core

    keys = ["t1_iters", "t1_pops", "t2_k", "t3_ops"]
    bvals = [None, 0, 2]
    rel = ["absent", "lt", "eq"]
    n = 0
    for bv in itertools.product(bvals, repeat=4):
        for rv in itertools.product(rel, repeat=4):
            for wall in (None, 10):
                for quantum in (None, 5):
                    for el in (0, 4, 5, 9, 10, 11):
                        budgets = {k: v for k, v in zip(keys, bv) if v is not None}
                        if wall is not None:
                            budgets["wall_ms"] = wall
                        if quantum is not None:
                            budgets["quantum_ms"] = quantum
                        consumed = {"ms": el}
                        ok = True
                        for k, b, r_ in zip(keys, bv, rv):
                            if r_ == "absent":
                                continue
                            if b is None:
                                consumed[k] = 1
                            elif r_ == "eq":
                                consumed[k] = b
                            else:
                                if b == 0:
                                    ok = False
                                    break
                                consumed[k] = b - 1
                        if not ok:
                            continue
                        if not full and (n % 7):
                            n += 1
                            continue
                        n += 1
                        sc = {"slice_idx": 1, "started_ms": 0, "budgets": dict(budgets), "agent_id": "A"}
                        c0, b0 = dict(consumed), dict(budgets)
                        got = core._should_yield(sc, consumed)
                        exp = table_oracle(budgets, consumed)
                        sess.evaluations += 1
                        sess.count("should_yield_rows")
                        if got != exp:
                            sess.violation("should_yield:precedence", {"budgets": budgets, "consumed": consumed}, {"got": got, "exp": exp})
                        if consumed != c0 or sc["budgets"] != b0:
                            sess.violation("should_yield:mutates-arguments", {"budgets": budgets, "consumed": consumed}, None)
                        if got is not None:
                            sess.nontrivial.add(chash((budgets, consumed)))


# ------------------------------------------------------------------------------ (C)
STAGES = ["T1", "T2", "T3", "T4", "Apply"]


def gen_turn_case(rng):
    from vlib.world import gen_world

    world = gen_world(rng, ngraphs=(1, 2), neps=(2, 14))
    b = {}
    tight = rng.random() < 0.35
    for k, vals in (("t1_pops", [None, 0, 1, 2, 5, 100]), ("t1_iters", [None, 0, 1, 2, 50]), ("t2_k", [None, 0, 1, 3, 64]), ("t3_ops", [None, 0, 1, 2, 3])):
        b[k] = rng.choice(vals) if tight else rng.choice([None, None, 1000, vals[-1]])
    quantum = rng.choice([1, 5, 20, 1000])
    wall = rng.choice([None, quantum, quantum + 5, max(200, quantum), 10 ** 6])
    b["wall_ms"] = wall
    sched = {"enabled": True, "policy": rng.choice(["round_robin", "fair_queue"]), "quantum_ms": quantum, "budgets": b}
    cfg = {"scheduler": sched, "t3": {"max_ops_per_turn": rng.choice([1, 2, 3, 8, 16])}, "t2": {"k_retrieval": rng.choice([1, 4, 16]), "sim_threshold": -1.0},
           "t1": {"queue_budget": rng.choice([1, 3, 10000]), "iter_cap": rng.choice([1, 50])}}
    if rng.random() < 0.3:
        cfg["t4"] = {"enabled": False}
    labs = [n[1] for g in world["graphs"].values() for n in g["nodes"] if n[1]]
    turns = []
    for t in range(rng.randint(1, 4)):
        txt = " ".join(rng.sample(labs, min(len(labs), rng.randint(1, 3)))) if labs and rng.random() < 0.8 else "nothing matches"
        step = rng.choice([0.0, 0.0, 0.0001, 0.0002, 0.0004, 0.001, 0.002, 0.004, 0.01, 0.3])
        plan = None
        if rng.random() < 0.3:
            plan = {"ops": [{"kind": "Speak"}] + [{"kind": "EditGraph"}] * rng.randint(0, 2),
                    "deltas": [["node", "n:x", "weight", 0.3, 1]]}
        jump = rng.randint(1, 40) if rng.random() < 0.5 else None  # perf_counter call index at which 10 s elapse at once
        ov = None
        if t > 0 and rng.random() < 0.5:
            # budgets tightened / loosened between turns of one history (same world, warm stage caches)
            ov = {k: rng.choice([None, 0, 1, 2, 3, 1000]) for k in rng.sample(["t1_pops", "t1_iters", "t2_k", "t3_ops"], rng.randint(1, 3))}
        same = False
        if t > 0 and rng.random() < 0.3:
            same = True  # exactly the previous request again (same agent, text, logical time): cache-served stages
        if t > 0 and rng.random() < 0.5:
            txt = turns[-1]["text"].rsplit(" t", 1)[0]  # ask the same thing again
        turns.append({"agent": rng.choice(["A", "B"]), "text": txt + f" t{t}", "pc_step": step if jump is None else 0.0, "pc_jump": jump, "plan": plan, "budgets": ov})
        if same:
            turns[-1]["agent"], turns[-1]["text"] = turns[-2]["agent"], turns[-2]["text"]
    return {"world": world, "cfg": cfg, "turns": turns, "reuse_ctx": rng.random() < 0.5}


def check_turn_case(case, sess: Session):
    import clematis.engine.orchestrator.core as core
    import clematis.engine.orchestrator as orch
    from clematis.engine.stages.t3.policy import deliberate as real_deliberate
    from vlib.turn import TurnEnv, VClock, mk_plan
    from vlib.harness import patched
    from vlib import bootstrap

    bootstrap.reset_globals()
    try:
        env = TurnEnv(case["cfg"], case["world"])
    except Exception as ex:
        sess.count("cfg_rejected_by_validator")
        sess.seen("cfg_rejection_messages", str(ex)[:120])
        return
    with env:
        ngraphs = len(case["world"]["graphs"])
        ctx_pool = {}
        for ti, t in enumerate(case["turns"]):
            if t.get("budgets"):
                for k_, v_ in t["budgets"].items():
                    env.cfg["scheduler"]["budgets"][k_] = v_
                sess.count("turns_with_changed_budgets")
            b = dict(env.cfg["scheduler"]["budgets"])
            decisions = []
            real_sy = core._should_yield

            vc_turn = VClock(pc_step=t["pc_step"], pc_script=([0.0] * t["pc_jump"] + [10.0]) if t.get("pc_jump") else None)
            elapsed_at = []

            def sy(slice_ctx, consumed):
                # the virtual clock's last reading is the one the consumption was computed from
                elapsed_at.append(None if vc_turn.first is None else int(round((vc_turn.pc - vc_turn.first) * 1000.0)))
                r = real_sy(slice_ctx, consumed)
                decisions.append((copy.deepcopy(slice_ctx["budgets"]), dict(consumed), r))
                return r

            plans = []

            def planner(ctx, state, bundle, _spec=t["plan"]):
                p = mk_plan(_spec) if _spec is not None else real_deliberate(bundle)
                plans.append((p, _spec is None, copy.deepcopy(bundle.get("slice_caps")), bundle.get("agent", {}).get("caps", {}).get("ops") if isinstance(bundle.get("agent"), dict) else None))
                return p

            # metamorphic twin: a slice cap must act exactly like the same cap written in the stage's own config
            t1twin = {}
            real_t1 = orch.t1_propagate

            def t1w(ctx, state, text, _tw=t1twin):
                caps = dict(getattr(ctx, "slice_budgets", None) or {})
                try:
                    ref_cfg = copy.deepcopy(ctx.cfg)
                    ref_cfg["t1"]["cache"] = {"enabled": False}
                    if caps.get("t1_pops") is not None:
                        ref_cfg["t1"]["queue_budget"] = min(int(ref_cfg["t1"].get("queue_budget", 10_000)), int(caps["t1_pops"]))
                    if caps.get("t1_iters") is not None:
                        ref_cfg["t1"]["iter_cap"] = min(int(ref_cfg["t1"].get("iter_cap", 50)), int(caps["t1_iters"]))
                    ref = real_t1(NS(cfg=ref_cfg, config=ref_cfg), state, text)
                    _tw["ref"] = (ref.graph_deltas, {k: ref.metrics.get(k) for k in ("pops", "iters", "propagations", "radius_cap_hits", "layer_cap_hits", "node_budget_hits")})
                except Exception as ex:  # the reference could not be computed: nothing to compare
                    _tw["err"] = repr(ex)[:100]
                r_ = real_t1(ctx, state, text)
                _tw["got"] = (r_.graph_deltas, {k: r_.metrics.get(k) for k in ("pops", "iters", "propagations", "radius_cap_hits", "layer_cap_hits", "node_budget_hits")})
                _tw["caps"] = caps
                return r_

            before = {s: len(env.records(s)) for s in ("t1.jsonl", "t2.jsonl", "t3.jsonl", "t3_plan.jsonl", "t4.jsonl", "apply.jsonl", "turn.jsonl", "scheduler.jsonl", "health.jsonl")}
            t2cap = {}
            real_t2 = orch.t2_semantic

            def t2w(ctx, state, text, t1, _c=t2cap):
                r_ = real_t2(ctx, state, text, t1)
                _c["t2"] = r_
                return r_

            with patched(core, "_should_yield", sy), patched(orch, "t1_propagate", t1w), patched(orch, "t2_semantic", t2w):
                reuse = case.get("reuse_ctx")
                r = env.run(t["agent"], t["text"], ti + 1, plan=planner, vclock=vc_turn, ctx_obj=(ctx_pool.get(t["agent"]) if reuse else None))
                if reuse:
                    ctx_pool[t["agent"]] = r["ctx"]  # the caller keeps one ctx per agent (it carries the slice counter)
            tcase = {"cfg": case["cfg"], "turn": ti, "turns": case["turns"][:ti + 1], "world": case["world"]}
            sess.evaluations += 1
            sess.count("scheduled_turns")
            sess.sample({"kind": "scheduled-turn", "scheduler": case["cfg"]["scheduler"], "turn": {k: t.get(k) for k in ("agent", "text", "pc_step", "pc_jump", "budgets")}})
            if r["exc"]:
                sess.violation("turn-raises:" + r["exc_type"], tcase, r["tb"][-400:])
                return
            new = {s: env.records(s)[before[s]:] for s in before}
            # --- stage clamps
            t1r = new["t1.jsonl"][0] if new["t1.jsonl"] else None
            if t1r is None:
                sess.inconclusive_because("no t1 record for a scheduled turn")
                return
            if b.get("t1_pops") is not None and t1r["pops"] > b["t1_pops"] * ngraphs:
                sess.violation("budget:t1-pops-exceeded", tcase, {"pops": t1r["pops"], "budget": b["t1_pops"], "graphs": ngraphs})
            if b.get("t1_iters") is not None and t1r["iters"] > b["t1_iters"] * ngraphs:
                sess.violation("budget:t1-iters-exceeded", tcase, {"iters": t1r["iters"], "budget": b["t1_iters"], "graphs": ngraphs})
            if "ref" in t1twin and "got" in t1twin:
                sess.count("t1_slice_vs_config_cap_twins")
                if t1twin["caps"].get("t1_pops") is not None or t1twin["caps"].get("t1_iters") is not None:
                    sess.count("t1_slice_vs_config_cap_twins_with_caps")
                if t1twin["ref"][0] != t1twin["got"][0]:
                    sess.violation("budget:t1-slice-cap-differs-from-config-cap(deltas)", tcase, {"caps": t1twin["caps"], "slice": t1twin["got"][0][:8], "config": t1twin["ref"][0][:8]})
                elif t1twin["ref"][1] != t1twin["got"][1]:
                    sess.violation("budget:t1-slice-cap-differs-from-config-cap(counters)", tcase, {"caps": t1twin["caps"], "slice": t1twin["got"][1], "config": t1twin["ref"][1]})
            if ngraphs == 1:
                sess.count("single_graph_turns(strict t1 budget)")
            bound_hit = False
            if b.get("t1_pops") is not None and t1r["pops"] >= b["t1_pops"]:
                bound_hit = True
            if new["t2.jsonl"]:
                t2r = new["t2.jsonl"][0]
                if b.get("t2_k") is not None and t2r.get("k_used", 0) > b["t2_k"]:
                    sess.violation("budget:t2-k-exceeded", tcase, {"k_used": t2r.get("k_used"), "budget": b["t2_k"]})
                if b.get("t2_k") is not None and t2r.get("k_returned", 0) > b["t2_k"]:
                    bound_hit = True
                    sess.count("turns_where_t2_slice_cap_bound")
            # everything the retrieval stage derives from its hits (the residual graph nudges) comes from the hits inside the
            # slice budget, not from the ones beyond it
            if b.get("t2_k") is not None and t2cap.get("t2") is not None:
                t2o = t2cap["t2"]
                used_texts = [(getattr(u, "text", "") or "").lower() for u in list(t2o.retrieved)[:max(0, int(b["t2_k"]))]]
                labs = {}
                for gid_, g_ in case["world"]["graphs"].items():
                    for n_ in g_["nodes"]:
                        if n_[1]:
                            labs.setdefault(n_[0], set()).add(str(n_[1]).lower())
                resid = [d.get("id") for d in (getattr(t2o, "graph_deltas_residual", None) or [])]
                if resid:
                    sess.count("residual_nudges_checked_against_the_slice_budget", len(resid))
                for nid_ in resid:
                    if nid_ in labs and not any(lb in t_ for lb in labs[nid_] for t_ in used_texts):
                        sess.violation("budget:t2-residual-from-hits-beyond-the-slice-budget", tcase, {"node": nid_, "labels": sorted(labs[nid_]), "t2_k": b["t2_k"], "used": used_texts[:4]})
                        break
            for p, is_real, slice_caps, _ in plans:
                nops = len(getattr(p, "ops", []) or [])
                if is_real:
                    sess.count("real_planner_calls")
                    cap = min(int(env.cfg["t3"]["max_ops_per_turn"]), int(b["t3_ops"])) if b.get("t3_ops") is not None else int(env.cfg["t3"]["max_ops_per_turn"])
                    if nops > cap:
                        sess.violation("budget:t3-ops-exceeded", tcase, {"ops": nops, "cap": cap})
                    if b.get("t3_ops") is not None and (slice_caps or {}).get("t3_ops") != int(b["t3_ops"]):
                        sess.violation("budget:t3-slice-cap-not-passed-to-planner", tcase, {"slice_caps": slice_caps, "budget": b["t3_ops"]})
            # --- boundary decisions
            if not decisions:
                sess.inconclusive_because("_should_yield wrapper saw no call on a scheduled turn")
                return
            sess.count("boundary_decisions", len(decisions))
            t3_on = True
            expected_stages = ["T1", "T2"] + (["T3"] if t3_on else []) + (["T4", "Apply"] if env.cfg["t4"].get("enabled", True) else [])
            yielded_at = None
            # the consumption reported at a stage boundary is the work that stage did (as its own record says), also when
            # the stage result was served from a cache
            if decisions and (decisions[0][1].get("t1_pops") != t1r.get("pops") or decisions[0][1].get("t1_iters") != t1r.get("iters")):
                sess.violation("yield:consumed-at-T1-boundary-differs-from-the-stage-record", tcase, {"consumed": decisions[0][1], "t1": {k: t1r.get(k) for k in ("pops", "iters")}})
            if len(decisions) >= 2 and new["t2.jsonl"]:
                sess.count("t2_boundary_consumption_checked")
                if new["t2.jsonl"][0].get("cache_hit") is True:
                    sess.count("t2_boundary_consumption_checked(cache-served)")
                if decisions[1][1].get("t2_k") != new["t2.jsonl"][0].get("k_used"):
                    sess.violation("yield:consumed-at-T2-boundary-differs-from-the-stage-record", tcase, {"consumed": decisions[1][1], "k_used": new["t2.jsonl"][0].get("k_used"),
                                                                                                        "cache_hit": new["t2.jsonl"][0].get("cache_hit")})
            # the elapsed time a boundary reports is the time that passed on the (virtual) clock since the turn began - under
            # CI normalisation too: the budgets bind on it
            for i, (bud, cons, res) in enumerate(decisions):
                if i < len(elapsed_at) and elapsed_at[i] is not None:
                    sess.count("boundary_elapsed_ms_checked")
                    if cons.get("ms") != elapsed_at[i]:
                        sess.violation("yield:consumed-ms-is-not-the-elapsed-time-of-the-turn", tcase, {"boundary": i, "consumed": cons, "elapsed_on_the_clock_ms": elapsed_at[i]})
                        break
            # the budgets a boundary decides on are the configured ones (scheduler.budgets + scheduler.quantum_ms), whatever
            # container the orchestrator hands to its decision helper
            cfg_bud = {k_: int(v_) for k_, v_ in b.items() if v_ is not None and k_ in ("t1_pops", "t1_iters", "t2_k", "t3_ops", "wall_ms")}
            cfg_bud["quantum_ms"] = int(env.cfg["scheduler"].get("quantum_ms", 20))
            for i, (bud, cons, res) in enumerate(decisions):
                exp = table_oracle(bud, cons)
                if exp != res:
                    sess.violation("should_yield:precedence(in-turn)", tcase, {"budgets": bud, "consumed": cons, "got": res, "exp": exp})
                exp_cfg = table_oracle(cfg_bud, cons)
                sess.count("boundary_decisions_checked_against_the_configuration")
                if exp_cfg != res:
                    sess.violation("yield:decision-differs-from-the-configured-budgets", tcase, {"configured": cfg_bud, "consumed": cons, "got": res, "exp": exp_cfg})
                if res is not None:
                    yielded_at = i
                    if i != len(decisions) - 1:
                        sess.violation("yield:turn-continued-after-yield-decision", tcase, {"decision_index": i, "total": len(decisions)})
                    break
            ev = new["scheduler.jsonl"]
            tr = new["turn.jsonl"]
            if len(tr) != 1:
                sess.violation("turn-record-count", tcase, len(tr))
                return
            if yielded_at is None:
                sess.count("turns_without_yield")
                if ev:
                    sess.violation("yield:event-without-decision", tcase, ev)
                if tr[0].get("yielded"):
                    sess.violation("yield:turn-record-says-yielded", tcase, tr[0])
                if len(decisions) != len(expected_stages):
                    sess.violation("yield:boundary-count", tcase, {"decisions": len(decisions), "expected": expected_stages})
            else:
                sess.count("turns_with_yield")
                sess.nontrivial.add(chash((case["cfg"]["scheduler"], t["pc_step"], ti)))
                stage = expected_stages[yielded_at] if yielded_at < len(expected_stages) else "?"
                sess.count("yield_at_" + stage)
                bud, cons, res = decisions[yielded_at]
                sess.count("yield_reason_" + res)
                if len(ev) != 1:
                    sess.violation("yield:event-count", tcase, {"events": len(ev)})
                else:
                    e = ev[0]
                    if e.get("stage_end") != stage:
                        sess.violation("yield:stage_end-not-the-boundary", tcase, {"stage_end": e.get("stage_end"), "boundary": stage})
                    if e.get("stage_end") not in STAGES:
                        sess.violation("yield:stage_end-not-a-stage-boundary", tcase, e.get("stage_end"))
                    if e.get("reason") != res:
                        sess.violation("yield:event-reason", tcase, {"event": e.get("reason"), "decision": res})
                    if e.get("consumed") != cons:
                        sess.violation("yield:event-consumed", tcase, {"event": e.get("consumed"), "decision": cons})
                if not tr[0].get("yielded") or tr[0].get("yield_reason") != res:
                    sess.violation("yield:turn-record", tcase, tr[0])
                # later-stage records must be absent
                later = {"T1": ["t2.jsonl", "t3.jsonl", "t4.jsonl", "apply.jsonl", "health.jsonl"], "T2": ["t3.jsonl", "t4.jsonl", "apply.jsonl", "health.jsonl"],
                         "T3": ["t3.jsonl", "t4.jsonl", "apply.jsonl", "health.jsonl"], "T4": ["apply.jsonl", "health.jsonl"], "Apply": ["health.jsonl"]}[stage]
                for s in later:
                    if new[s]:
                        sess.violation("yield:later-stage-record-written", tcase, {"stage_end": stage, "stream": s})
                earlier = {"T1": ["t1.jsonl"], "T2": ["t1.jsonl", "t2.jsonl"], "T3": ["t1.jsonl", "t2.jsonl"], "T4": ["t1.jsonl", "t2.jsonl", "t4.jsonl"],
                           "Apply": ["t1.jsonl", "t2.jsonl", "t4.jsonl", "apply.jsonl"]}[stage]
                for s in earlier:
                    if len(new[s]) != 1:
                        sess.violation("yield:earlier-stage-record-missing", tcase, {"stage_end": stage, "stream": s, "n": len(new[s])})
            if bound_hit:
                sess.count("turns_where_a_stage_budget_bound")


# ------------------------------------------------------------------------------ driver
def _work(args):
    what, tier, seed, payload = args
    from vlib import bootstrap

    bootstrap.init()
    sess = Session.worker(PID, tier, seed)
    try:
        if what == "sched":
            n, policy, mct, aging, rotate, depth = payload
            explore_sched(n, policy, mct, aging, rotate, depth, sess)
        elif what == "rand":
            rng = random.Random(f"C17/r/{seed}/{payload}")
            for _ in range(10 if tier == "quick" else 60):
                random_sched(rng, 5000, sess)
        elif what == "table":
            should_yield_table(sess, full=(tier != "quick"))
        elif what == "turns":
            rng = random.Random(f"C17/t/{seed}/{payload}")
            for _ in range(40 if tier == "quick" else 300):
                check_turn_case(gen_turn_case(rng), sess)
    except Exception as ex:
        import traceback
        sess.inconclusive_because(f"harness error {type(ex).__name__}: {ex} @ {traceback.format_exc()[-500:]}")
    out = sess.export()
    out["max_gap"] = sess.extra.get("max_gap_seen", 0)
    return out


def main(tier: str, seed: int):
    sess = Session(PID, tier, seed, level="exploration", rule=RULE)
    depth = 8 if tier == "quick" else 12
    sess.assume("the wait bound is counted as selections strictly between two turns of the same agent (and, reported under its own mechanism, from the start to the first turn)")
    sess.assume("T1 applies its pop/layer budgets per graph; on multi-graph worlds the monitor enforces budget x graphs, on single-graph worlds the budget itself")
    sess.assume("stage budgets in the _should_yield table are exercised for consumed <= budget only (the stages clamp; C12/C11/C13 own the clamps)")
    jobs = []
    for n in (1, 2, 3, 4):
        for policy in ("round_robin", "fair_queue"):
            for mct in (1, 2, 3):
                for aging in ((0,) if policy == "round_robin" else (0, 1, 200)):
                    for rotate in (False, True):
                        dd = depth if n < 4 else max(6, depth - 2)
                        jobs.append(("sched", tier, seed, (n, policy, mct, aging, rotate, dd)))
    jobs += [("rand", tier, seed, i) for i in range(4 if tier == "quick" else 12)]
    jobs += [("table", tier, seed, 0)]
    jobs += [("turns", tier, seed, i) for i in range(14 if tier == "quick" else 42)]
    mg = 0
    for ex in par.pmap(_work, jobs):
        mg = max(mg, ex.pop("max_gap", 0))
        sess.merge(ex)
    sess.extra["max_gap_seen_any_config"] = mg
    sess.extra["history_depth"] = depth
    sess.exhaustive = False
    sess.require("scheduler_picks", 50000)
    sess.require("resets_observed", 100)
    sess.require("should_yield_rows", 2000)
    sess.require("scheduled_turns", 100)
    sess.require("turns_with_yield", 30)
    sess.require("turns_without_yield", 10)
    sess.require("boundary_decisions", 200)
    sess.require("real_planner_calls", 30)
    sess.finish()


def replay(body, tier, seed):
    sess = Session(PID, tier, seed, rule=RULE)
    sess.replay_mode = True
    case = unjson(body["case"])
    if "world" in case:
        check_turn_case({"world": case["world"], "cfg": case["cfg"], "turns": case["turns"]}, sess)
    elif "budgets" in case:
        should_yield_table(sess, True)
    elif case.get("random"):
        random_sched(random.Random(0), 5000, sess)
    else:
        explore_sched(case["n"], case["policy"], case["mct"], case["aging"], case["rotate"], len(case.get("path", [])) + 1, sess)
    return sess.finish(exit_process=False)
