"""C09 - Stage-level parallelism is indistinguishable from sequential execution.

Monitors:
  (1) the real `run_parallel` under *forced completion orders*: every task blocks on its own event; a
      controller releases the events in a chosen order (all n! orders for n <= 5 with enough workers, every
      order feasible under the executor's FIFO hand-out for fewer workers, sampled beyond) and the thunks
      log their real finish sequence, so the evidence lists the distinct completion orders that occurred.
      Oracle: return value == merge_fn(all results sorted by (order_key, submit index)); merge_fn called
      once; with failing tasks and >= 2 workers: ParallelError.errors == the failing set in key order and
      merge_fn never called; for workers <= 1: identical to a plain loop (first failure in submit order,
      no merge, later tasks not run);
  (2) T1 over several graphs: twin execution parallel vs sequential on identical worlds under a 1 us switch
      interval and random delays injected into the store's per-graph reads (so completion orders vary);
      graph_deltas and every counter compared exactly (gated parallel metrics excluded by name);
  (3) T2 over shards: twin execution of t2_semantic with perf.parallel.t2 on vs off, results compared; the
      end-to-end fan-out cannot run on this tree (known finding), so its two halves are also monitored on their
      own: the cross-shard merge against a tier-walk model on generated shard hits (ids re-delivered by later
      tiers and by several shards, score ties on the 1e-9 grid, every K). (collect_shard_hits, the other half,
      returns no hits at all on this tree - it passes recent_days=None, which the index rejects and the helper
      swallows - so a sharded-vs-unsharded twin of it would compare empty lists; that is part of the known finding.)
"""
from __future__ import annotations

import copy
import itertools
import random
import sys
import threading
import time
from types import SimpleNamespace as NS

from vlib import par
from vlib.session import Session, unjson, chash

PID = "C09"
RULE = ("one evaluation = one run_parallel call under a forced completion order, or one parallel-vs-sequential twin of "
        "T1 / T2; non-trivial = >= 2 tasks actually finished in an order different from submit order, or a twin over >= 2 graphs / shards")


def feasible_orders(n, w):
    """All completion orders possible when a FIFO pool of w workers runs n blocking tasks."""
    w = max(1, min(w, n))
    out = []

    def rec(done, started, order):
        if len(order) == n:
            out.append(tuple(order))
            return
        for t in sorted(started - done):
            nd = done | {t}
            ns = set(started)
            nxt = len(ns)
            if nxt < n:
                ns.add(nxt)
            rec(nd, ns, order + [t])

    rec(frozenset(), set(range(w)), [])
    return out


def helper_case(case, sess: Session):
    from clematis.engine.util.parallel import run_parallel, ParallelError

    n, w, keys, failing, order = case["n"], case["workers"], case["keys"], set(case["failing"]), case["order"]
    go = [threading.Event() for _ in range(n)]
    started = [threading.Event() for _ in range(n)]
    finished = []
    lock = threading.Lock()
    ran = [0] * n

    def mk(i):
        def thunk():
            ran[i] += 1
            started[i].set()
            if w >= 2:
                if not go[i].wait(20):
                    raise TimeoutError("controller did not release task %d" % i)
            with lock:
                finished.append(i)
            if i in failing:
                raise ValueError(f"task{i}")
            return ("res", i, keys[i])
        return thunk

    tasks = [(tuple(keys[i]) if isinstance(keys[i], list) else keys[i], mk(i)) for i in range(n)]
    merges = []

    def merge_fn(pairs):
        merges.append([(k, r) for k, r in pairs])
        return ("merged", tuple(r[1] for _, r in pairs))

    okey = (lambda k: k) if case["okey"] == "id" else (lambda k: (k[0] if isinstance(k, tuple) else k))
    stop = [False]

    def controller():
        for t in order:
            # release next task; wait until it really finished before releasing the following one
            if not started[t].wait(0.4 if stop[0] else 2.0):
                # the helper has not handed this task to a worker although the forced order says it could run now:
                # stop steering (release everything) - the result oracle below does not depend on the order
                stop[0] = True
                break
            go[t].set()
            t0 = time.time()
            while time.time() - t0 < 10:
                with lock:
                    if t in finished:
                        break
                time.sleep(0.0002)
        for e in go:
            e.set()

    ctl = None
    if w >= 2 and n > 0:
        ctl = threading.Thread(target=controller, daemon=True)
        ctl.start()
    res = exc = None
    try:
        res = run_parallel(tasks, max_workers=w, merge_fn=merge_fn, order_key=okey)
    except ParallelError as e:
        exc = e
    except Exception as e:  # anything else escaping the helper
        for ev in go:
            ev.set()
        sess.violation("helper-raises-untyped:" + type(e).__name__, case, repr(e)[:200])
        return
    finally:
        for ev in go:
            ev.set()
        if ctl is not None:
            ctl.join(15)
    sess.evaluations += 1
    sess.count("run_parallel_calls")
    if w >= 2 and n >= 3:
        sess.sample({**case, "finish_order_observed": list(finished)})
    if stop[0]:
        sess.count("forced_order_abandoned(task not started while a worker was free)")
    if w >= 2 and n > 0:
        sess.seen("distinct_completion_orders", (n, min(w, n), tuple(finished)))
        if tuple(finished) != tuple(order) or stop[0]:
            sess.count("forced_order_not_realised")
        elif list(finished) != sorted(finished) and n >= 2:
            sess.nontrivial.add(chash((n, w, tuple(finished), tuple(map(str, keys)), tuple(sorted(failing)))))
    sort_idx = sorted(range(n), key=lambda i: (okey(tasks[i][0]), i))
    if w <= 1:
        # plain loop reference
        first_fail = next((i for i in range(n) if i in failing), None)
        if first_fail is not None:
            if exc is None or [e.key for e in exc.errors] != [tasks[first_fail][0]] or exc.errors[0].exc_type != "ValueError":
                sess.violation("sequential-path:not-first-failure-in-submit-order", case, {"exc": str(exc)[:200] if exc else None, "res": repr(res)[:100]})
            if merges:
                sess.violation("merge-called-despite-failure", case, None)
            if any(ran[i] for i in range(first_fail + 1, n)):
                sess.violation("sequential-path:ran-tasks-after-failure", case, ran)
            if finished != list(range(first_fail + 1)):
                sess.violation("sequential-path:not-a-plain-loop", case, finished)
            return
        if finished != list(range(n)):
            sess.violation("sequential-path:not-a-plain-loop", case, finished)
    if failing and w >= 2:
        expk = [tasks[i][0] for i in sort_idx if i in failing]
        if exc is None:
            sess.violation("failures-not-reported", case, {"res": repr(res)[:100]})
        else:
            gotk = [e.key for e in exc.errors]
            if gotk != expk:
                sess.violation("failures-not-exactly-the-failing-set-in-key-order", case, {"got": gotk, "exp": expk})
            if any(e.exc_type != "ValueError" or not e.message.startswith("task") for e in exc.errors):
                sess.violation("failure-record-content", case, [(e.exc_type, e.message) for e in exc.errors])
        if merges:
            sess.violation("merge-called-despite-failure", case, None)
        if any(r != 1 for r in ran):
            sess.violation("task-not-run-exactly-once", case, ran)
        return
    if not failing:
        if exc is not None:
            sess.violation("spurious-parallel-error", case, str(exc)[:200])
            return
        exp_pairs = [(tasks[i][0], ("res", i, keys[i])) for i in sort_idx]
        exp = ("merged", tuple(i for i in sort_idx))
        if len(merges) != 1:
            sess.violation("merge-call-count", case, len(merges))
        elif merges[0] != exp_pairs:
            sess.violation("merge-input-not-sorted-by-key-then-submit-index", case, {"got": [p[1][1] for p in merges[0]], "exp": list(sort_idx)})
        if res != exp:
            sess.violation("result-differs-from-reference-merge", case, {"got": repr(res)[:120], "exp": repr(exp)[:120]})
        if any(r != 1 for r in ran):
            sess.violation("task-not-run-exactly-once", case, ran)


def gen_helper_cases(tier, rng):
    nmax = 4 if tier == "quick" else 5
    cases = []
    for n in range(0, nmax + 1):
        for w in range(0, 9 if tier != "quick" else 6):
            if n == 0 or w <= 1:
                orders = [tuple(range(n))]
            else:
                orders = feasible_orders(n, w)
            kvars = [("distinct", list(range(n))), ("ties", [0] * n), ("rev", list(range(n, 0, -1))), ("tuple", [[i % 2, f"g{n - i}"] for i in range(n)])]
            for kname, keys in kvars:
                if tier == "quick" and kname in ("rev",) and n >= 4:
                    continue
                fsets = [()]
                if n:
                    allf = [f for r in range(1, n + 1) for f in itertools.combinations(range(n), r)]
                    fsets += allf if (tier != "quick" or n <= 3) else rng.sample(allf, 4)
                for fs in fsets:
                    ords = orders if (not fs or tier != "quick") else rng.sample(orders, min(3, len(orders)))
                    if tier == "quick" and len(ords) > 12:
                        ords = rng.sample(ords, 12)
                    for o in ords:
                        cases.append({"n": n, "workers": w, "keys": keys, "failing": list(fs), "order": list(o), "okey": "first" if kname == "tuple" and rng.random() < 0.5 else "id"})
    # sampled larger
    for _ in range(40 if tier == "quick" else 600):
        n = rng.randint(6, 12)
        w = rng.randint(2, 8)
        # random feasible order by simulation
        started, done, order = set(range(min(w, n))), set(), []
        while len(order) < n:
            t = rng.choice(sorted(started - done))
            done.add(t)
            order.append(t)
            if len(started) < n:
                started.add(len(started))
        keys = [rng.randint(0, 3) for _ in range(n)]
        fs = rng.sample(range(n), rng.choice([0, 0, 1, 2, 3]))
        if rng.random() < 0.3:
            fs = sorted({0, n - 1, rng.randrange(n)})  # failures far apart in submit order
        cases.append({"n": n, "workers": w, "keys": keys, "failing": fs, "order": order, "okey": "id"})
    return cases


# ------------------------------------------------------------------------------ T1 twins
def t1_twin(case, sess: Session):
    import clematis.engine.stages.t1 as t1m
    from vlib.harness import build_store, to_ad, validated
    from vlib import bootstrap

    text = case["text"]
    yield_counts = []

    def run(parallel, jitter_seed):
        bootstrap.reset_globals()
        # the twins differ in the parallel switch only (same perf master / metrics settings on both sides)
        over = {"t1": copy.deepcopy(case["t1"]),
                "perf": {"enabled": case["perf_on"], "parallel": {"enabled": bool(parallel), "t1": True, "max_workers": case["workers"]}}}
        if case.get("metrics"):
            over["perf"]["metrics"] = {"report_memory": True}
        cfg = to_ad(validated(over))
        st = build_store(case["graphs"])
        jr = random.Random(jitter_seed)
        real_get = st.get_graph
        order_seen = []

        def slow_get(gid):
            time.sleep(jr.choice([0, 0, 0.0005, 0.002]))
            order_seen.append(gid)
            return real_get(gid)

        st.get_graph = slow_get
        real_csr = st.csr

        def slow_csr(gid):  # second suspension point: after the per-graph scratch state is set up, before the heap loop
            time.sleep(jr.choice([0, 0.0003, 0.001, 0.002]))
            return real_csr(gid)

        st.csr = slow_csr
        state = {"store": st, "active_graphs": list(case["order"])}
        old = sys.getswitchinterval()
        sys.setswitchinterval(1e-6)
        from vlib.harness import line_yields, nested_codes
        import contextlib as _cl
        # for some parallel runs a thread switch is offered at every statement of the stage's own code (its per-graph thunks
        # included), so that the workers interleave inside the loops, not only at the store reads
        inj = line_yields(nested_codes(t1m.t1_propagate), prob=0.06, seed=jitter_seed) if (parallel and case.get("line_yields")) else _cl.nullcontext([0])
        try:
            with inj as injected:
                r = t1m.t1_propagate(NS(cfg=cfg), state, text)
            if parallel and case.get("line_yields"):
                yield_counts.append(injected[0])
            # the same request again on the now warm stage cache (same process, same state): twice more
            again = [t1m.t1_propagate(NS(cfg=cfg), state, text) for _ in range(case.get("recalls", 0))]
        finally:
            sys.setswitchinterval(old)
        r._again = [(a.graph_deltas, {k: v for k, v in a.metrics.items() if k in ("pops", "iters", "propagations", "graphs_touched")}) for a in again]
        return r, tuple(order_seen)

    try:
        rs, _ = run(False, 0)
    except Exception as ex:
        sess.count("t1_sequential_raised_" + type(ex).__name__)
        return
    base = {k: v for k, v in rs.metrics.items() if k not in ("parallel_workers", "task_count")}
    for js in range(case["repeats"]):
        try:
            rp, order_seen = run(True, js + 1)
        except Exception as ex:
            sess.violation("t1-parallel-raises:" + type(ex).__name__, case, repr(ex)[:300])
            return
        sess.evaluations += 1
        sess.count("t1_twins")
        if yield_counts:
            sess.count("t1_twins_with_line_yield_injection")
            sess.count("t1_line_yields_injected", yield_counts.pop())
        sess.seen("t1_distinct_graph_visit_orders", (len(case["order"]), order_seen))
        mp = {k: v for k, v in rp.metrics.items() if k not in ("parallel_workers", "task_count")}
        if rp.graph_deltas != rs.graph_deltas:
            sess.violation("t1-parallel-deltas-differ", case, {"seq": rs.graph_deltas[:6], "par": rp.graph_deltas[:6]})
            return
        if mp != base:
            diff = {k: (base.get(k), mp.get(k)) for k in set(base) | set(mp) if base.get(k) != mp.get(k)}
            mech = "t1-parallel-counters-differ"
            if set(diff) <= {"cache_hits", "cache_misses", "cache_used"} and len(set(case["order"])) < len(case["order"]) and case["t1"].get("cache", {}).get("enabled"):
                # a graph id listed twice with the stage cache on: sequentially the second listing is a cache hit, in
                # parallel both listings race for the entry
                mech = "t1-parallel-duplicate-graph-id:cache-hit/miss-counters-differ-from-sequential"
            sess.violation(mech, case, diff)
            return
        if getattr(rp, "_again", None):
            sess.count("t1_twins_with_warm_recalls")
            if rp._again != rs._again:
                i_ = next(i for i, (a, b) in enumerate(zip(rp._again, rs._again)) if a != b)
                sess.violation("t1-parallel-warm-recall-differs", case, {"recall": i_ + 1, "seq_deltas": len(rs._again[i_][0]), "par_deltas": len(rp._again[i_][0]),
                                                                         "seq": rs._again[i_][1], "par": rp._again[i_][1]})
                return
        if len(case["order"]) >= 2:
            sess.nontrivial.add(chash((case["text"], tuple(case["order"]), case["workers"], js)))
            if list(order_seen) != list(case["order"]):
                sess.count("t1_twins_with_out_of_order_graph_visits")


def gen_t1_case(rng):
    from vlib.harness import gen_graph, gen_text

    ng = rng.choice([1, 2, 3, 4, 5, 6, 11, 13, 23])
    graphs = {f"g{i}": gen_graph(rng, nmax=8 if ng <= 6 else 4, emax=12 if ng <= 6 else 4) for i in range(ng)}
    labs = [n[1] for g in graphs.values() for n in g["nodes"] if n[1]]
    text = gen_text(rng) + " " + " ".join(rng.sample(labs, min(len(labs), 2)))
    t1 = {"cache": {"enabled": rng.random() < 0.4}}
    if rng.random() < 0.5:
        t1["queue_budget"] = rng.choice([1, 3, 10000])
    if rng.random() < 0.5:
        t1["radius_cap"] = rng.choice([1, 2, 4])
    order = list(graphs)
    rng.shuffle(order)
    if rng.random() < 0.25:
        # a graph id listed more than once: the sequential walk propagates it once per listing
        for _ in range(rng.randint(1, 3)):
            order.insert(rng.randrange(len(order) + 1), rng.choice(order))
    return {"graphs": graphs, "text": text, "t1": t1, "order": order, "workers": rng.choice([2, 3, 8]), "perf_on": rng.random() < 0.5,
            "metrics": rng.random() < 0.3, "repeats": 3, "recalls": rng.choice([0, 2, 2]), "line_yields": rng.random() < 0.35}


# ------------------------------------------------------------------------------ T2 twins
def t2_twin(case, sess: Session):
    import clematis.engine.stages.t2.core as core
    from vlib.harness import build_index, to_ad, validated, iso_from_ms, NOW_MS
    from vlib import bootstrap

    def run(parallel):
        bootstrap.reset_globals()
        over = {"t2": copy.deepcopy(case["t2"]),
                "perf": {"enabled": case["perf_on"], "parallel": {"enabled": bool(parallel), "t2": True, "max_workers": case["workers"]}}}
        cfg = to_ad(validated(over))
        idx = build_index(case["eps"])
        ctx = NS(cfg=cfg, config=cfg, agent_id="A", now=iso_from_ms(NOW_MS), now_ms=NOW_MS, turn_id=1)
        old = sys.getswitchinterval()
        sys.setswitchinterval(1e-6)
        try:
            return core.t2_semantic(ctx, {"mem_index": idx}, case["query"], NS(graph_deltas=[]))
        finally:
            sys.setswitchinterval(old)

    rs = run(False)
    sess.evaluations += 1
    sess.count("t2_twins")
    nshards = min(case["workers"], len(case["eps"])) if len(case["eps"]) > 1 else 1
    if nshards >= 2:
        sess.nontrivial.add(chash(("t2", case["query"], len(case["eps"]), case["workers"])))
        sess.count("t2_twins_with_2plus_shards")
    try:
        rp = run(True)
    except TypeError as ex:
        if "NoneType" in str(ex) and "callable" in str(ex):
            sess.violation("t2-shard-fanout:raises-TypeError(merge_fn/order_key=None)", case, repr(ex)[:200])
        else:
            sess.violation("t2-parallel-raises:TypeError", case, repr(ex)[:300])
        return
    except Exception as ex:
        sess.violation("t2-parallel-raises:" + type(ex).__name__, case, repr(ex)[:300])
        return
    a = [(x.id, float(x.score)) for x in rs.retrieved]
    b = [(x.id, float(x.score)) for x in rp.retrieved]
    if a != b:
        sess.violation("t2-parallel-result-differs-from-sequential", case, {"seq": a[:6], "par": b[:6]})
        return
    drop = ("t2.task_count", "t2.parallel_workers", "t2.partition_count", "parallel_workers", "task_count")
    ma = {k: v for k, v in rs.metrics.items() if k not in drop}
    mb = {k: v for k, v in rp.metrics.items() if k not in drop}
    if ma != mb:
        diff = {k: (ma.get(k), mb.get(k)) for k in set(ma) | set(mb) if ma.get(k) != mb.get(k)}
        sess.violation("t2-parallel-counters-differ", case, diff)


def gen_t2_case(rng):
    from vlib.world import gen_world

    w = gen_world(rng, ngraphs=(0, 0), neps=(0, 40), gel=False)
    tiers = rng.sample(["exact_semantic", "cluster_semantic", "archive"], rng.randint(1, 3))
    t2 = {"k_retrieval": rng.choice([1, 3, 8, 64]), "sim_threshold": rng.choice([-1.0, 0.0, 0.1]), "tiers": tiers, "exact_recent_days": rng.choice([0, 30, 365]),
          "owner_scope": rng.choice(["any", "agent"]), "cache": {"enabled": False}}
    return {"eps": w["eps"], "t2": t2, "query": " ".join(rng.sample(["hello", "world", "cat", "moon", "river"], 2)), "workers": rng.choice([2, 3, 4, 8]), "perf_on": rng.random() < 0.5}


# ------------------------------------------------------------------------------ shard merge (helper level)
def model_merge(shards, tiers, k):
    """Documented rule: walk tiers in order; per tier all hits of all shards sorted by (score desc [1e-9 grid], id asc);
    ids already delivered are skipped; stop at k."""
    out, seen, used = [], set(), []
    for t in tiers:
        used.append(t)
        bucket = [h for d in shards for h in (d.get(t) or [])]
        bucket.sort(key=lambda h: (-int(round(float(h["score"]) * 1_000_000_000)), str(h["id"])))
        for h in bucket:
            if str(h["id"]) in seen:
                continue
            out.append((str(h["id"]), float(h["score"])))
            seen.add(str(h["id"]))
            if len(out) >= k:
                return out, used
    return out, used


def merge_case(case, sess: Session):
    from clematis.engine.stages.t2.shard import merge_tier_hits_across_shards_dict

    shards, tiers, k = case["shards"], case["tiers"], case["k"]
    got, used = merge_tier_hits_across_shards_dict(copy.deepcopy(shards), list(tiers), k)
    exp, exp_used = model_merge(shards, tiers, k)
    sess.evaluations += 1
    sess.count("shard_merge_cases")
    g = [(str(h.get("id")), float(h.get("score"))) for h in got]
    redelivered = any(str(h["id"]) in {str(x["id"]) for d in shards for x in (d.get(tiers[0]) or [])} for t in tiers[1:] for d in shards for h in (d.get(t) or [])) if tiers else False
    if len(shards) >= 2 and len(tiers) >= 2 and redelivered:
        sess.nontrivial.add(chash(("merge", case)))
        sess.count("shard_merge_cases_with_ids_redelivered_by_later_tier")
    if len(exp) == k and len(tiers) >= 2:
        sess.count("shard_merge_cases_filled_to_k")
    if g != exp:
        sess.violation("shard-merge:differs-from-tier-walk-model", case, {"got": g[:8], "exp": exp[:8]})
    elif list(used) != exp_used:
        sess.violation("shard-merge:tier-sequence-differs", case, {"got": used, "exp": exp_used})


def gen_merge_case(rng):
    tiers = rng.sample(["exact_semantic", "cluster_semantic", "archive"], rng.randint(1, 3))
    ns = rng.randint(1, 5)
    ids = [f"e{i}" for i in range(rng.randint(1, 14))]
    grid = [round(x * 0.125, 3) for x in range(-2, 9)]
    # one score per (id, tier): a shard partition holds disjoint episodes, but overlapping shards are legal input too
    shards = [dict() for _ in range(ns)]
    for t in tiers:
        for e in ids:
            if rng.random() < 0.6:
                sc = rng.choice(grid)
                homes = [rng.randrange(ns)] if rng.random() < 0.85 else rng.sample(range(ns), min(ns, 2))
                for hshard in homes:
                    shards[hshard].setdefault(t, []).append({"id": e, "score": sc, "text": f"t-{e}"})
    for d in shards:
        for t in d:
            d[t].sort(key=lambda h: (-h["score"], h["id"]))
    return {"shards": shards, "tiers": tiers, "k": rng.choice([1, 2, 3, 4, 6, 8, 20])}


# ------------------------------------------------------------------------------ shard views of a living index
def shard_views_case(rng, sess: Session):
    """The views handed to the fan-out must partition the index as it is NOW: after every mutation (add, wipe, refill to
    the same size) the concatenation of the views' episodes is the index content, and searching the views and merging
    equals searching the unsharded index (archive tier: the one tier collect_shard_hits can serve on this tree)."""
    from clematis.engine.stages.t2.parallel import collect_shard_hits
    from clematis.engine.stages.t2.shard import merge_tier_hits_across_shards_dict
    from clematis.adapters.embeddings import DeterministicEmbeddingAdapter
    from vlib.harness import build_index, iso_from_ms, NOW_MS
    import numpy as np

    enc = DeterministicEmbeddingAdapter(dim=32)
    idx = build_index([])
    w = rng.choice([2, 3, 4, 8])
    serial = [0]

    ties = rng.random() < 0.5  # repeated utterances: exactly equal scores, stored in an order that is not the id order (s9 < s10 ...)
    serial[0] = rng.choice([0, 7, 97])

    def mk(n):
        out = []
        for _ in range(n):
            serial[0] += 1
            out.append({"id": f"s{serial[0]}", "owner": rng.choice(["A", "A", "B", "world"]),
                        "text": rng.choice(["hello world", "cat moon", "river tree"]) if ties else " ".join(rng.sample(["hello", "world", "cat", "moon", "river", "tree"], 3)) + f" {serial[0]}",
                        "ts": "2023-0%d-1%d T00:00:00Z".replace(" ", "") % (rng.randint(1, 9), rng.randint(0, 9)), "vec": "enc", "aux": {"importance": 0.5}})
        return out

    ops = []
    for step in range(rng.randint(3, 7)):
        op = rng.choice(["add", "add", "wipe-refill-same", "wipe-refill-other", "query"])
        ops.append(op)
        if op == "add":
            for e in build_index(mk(rng.randint(1, 6)))._eps:
                idx.add(e)
        elif op.startswith("wipe"):
            n = len(idx._eps)
            idx.clear()
            for e in build_index(mk(n if op.endswith("same") else rng.randint(0, 8)))._eps:
                idx.add(e)
        views = list(idx._iter_shards_for_t2("exact_semantic", suggested=w))
        got = []
        for v in views:
            got += [e.get("id") for e in (v._eps if v is idx else v._episodes)]
        sess.evaluations += 1
        sess.count("shard_view_checks")
        case = {"ops": list(ops), "workers": w, "n": len(idx._eps), "ties": ties}
        if ties:
            sess.count("shard_view_checks_with_tied_scores")
        if len(views) >= 2:
            sess.count("shard_view_checks_2plus_views")
            sess.nontrivial.add(chash(("views", tuple(ops), w, len(idx._eps))))
        if got != [e.get("id") for e in idx._eps]:
            sess.violation("shard-views-do-not-partition-the-current-index", case, {"views": got[:8], "index": [e.get("id") for e in idx._eps][:8]})
            return
        q = np.asarray(enc.encode([rng.choice(["hello world", "cat moon", "river tree"])])[0], dtype=np.float32)
        # per shard, collect_shard_hits is the shard's own tier searches, each with the full K (a later tier is not asked
        # for fewer because an earlier one already produced hits: the cross-shard merge de-duplicates across tiers)
        K_ = rng.choice([1, 2, 4, 6])
        tiers_ = rng.choice([["cluster_semantic", "archive"], ["archive", "cluster_semantic"], ["archive"], ["cluster_semantic"]])
        top_m = rng.choice([1, 2, 3])
        owner_ = rng.choice([None, None, "A", "B"])
        for v in views:
            got_t = collect_shard_hits(v, tiers_, owner_, q, K_, iso_from_ms(NOW_MS), -1.0, top_m)
            # a shard's hits come from its own slice of the index (and from the asked owner)
            own_ = {str(e.get("id")): e.get("owner") for e in (v._eps if v is idx else v._episodes)}
            for t_ in tiers_:
                for h in got_t.get(t_, []):
                    sess.count("shard_hits_checked_against_their_slice")
                    if h["id"] not in own_ or (owner_ is not None and own_[h["id"]] != owner_):
                        sess.violation("shard-hit-not-from-its-own-slice-or-owner", case, {"tier": t_, "owner": owner_, "hit": h["id"], "slice": sorted(own_)[:6]})
                        return
            for t_ in tiers_:
                hints = {"sim_threshold": -1.0, "now": iso_from_ms(NOW_MS)}
                if t_ == "cluster_semantic":
                    hints["clusters_top_m"] = top_m
                try:
                    want_t = [str(h.id) for h in v.search_tiered(owner=owner_, q_vec=q, k=K_, tier=t_, hints=hints)]
                except Exception:
                    want_t = []
                sess.count("shard_tier_collections_checked")
                if [h["id"] for h in got_t.get(t_, [])] != want_t:
                    sess.violation("collect_shard_hits-differs-from-the-shards-own-tier-search", case, {"tier": t_, "k": K_, "got": [h["id"] for h in got_t.get(t_, [])], "search": want_t})
                    return
        whole = collect_shard_hits(idx, ["archive"], None, q, 4, iso_from_ms(NOW_MS), -1.0, 3)
        parts = [collect_shard_hits(v, ["archive"], None, q, 4, iso_from_ms(NOW_MS), -1.0, 3) for v in views]
        a, _ = merge_tier_hits_across_shards_dict([whole], ["archive"], 4)
        b, _ = merge_tier_hits_across_shards_dict(parts, ["archive"], 4)
        if a:
            sess.count("shard_view_searches_with_hits")
        if [(h["id"], round(float(h["score"]), 9)) for h in a] != [(h["id"], round(float(h["score"]), 9)) for h in b]:
            sess.violation("shard-search-differs-from-unsharded-search", case, {"unsharded": [h["id"] for h in a], "sharded": [h["id"] for h in b]})
            return


# ------------------------------------------------------------------------------ driver
def _work(args):
    what, tier, seed, payload = args
    from vlib import bootstrap

    bootstrap.init()
    sess = Session.worker(PID, tier, seed)
    try:
        if what == "helper":
            for case in payload:
                helper_case(case, sess)
        elif what == "t1":
            rng = random.Random(f"C09/t1/{seed}/{payload}")
            for _ in range(8 if tier == "quick" else 150):
                t1_twin(gen_t1_case(rng), sess)
        elif what == "t2":
            rng = random.Random(f"C09/t2/{seed}/{payload}")
            for _ in range(8 if tier == "quick" else 150):
                t2_twin(gen_t2_case(rng), sess)
        elif what == "views":
            if payload == 0:
                # every (index size, worker count) pair up to 48 x 9: the shard views partition the index
                from vlib.harness import build_index
                for n_ in range(0, 49):
                    idx_ = build_index([{"id": f"p{j}", "owner": "A", "text": f"t{j}", "ts": "2023-01-01T00:00:00Z", "vec": "enc", "aux": {}} for j in range(n_)])
                    for w_ in range(1, 10):
                        vs_ = list(idx_._iter_shards_for_t2("exact_semantic", suggested=w_))
                        got_ = []
                        for v_ in vs_:
                            got_ += [e.get("id") for e in (v_._eps if v_ is idx_ else v_._episodes)]
                        sess.evaluations += 1
                        sess.count("shard_partitions_enumerated")
                        if got_ != [e.get("id") for e in idx_._eps]:
                            sess.violation("shard-views-do-not-partition-the-current-index", {"ops": ["enumerated"], "workers": w_, "n": n_}, {"views": got_[-6:], "index_tail": [e.get("id") for e in idx_._eps][-6:]})
                            break
            rng = random.Random(f"C09/views/{seed}/{payload}")
            for _ in range(40 if tier == "quick" else 1500):
                shard_views_case(rng, sess)
        elif what == "merge":
            rng = random.Random(f"C09/merge/{seed}/{payload}")
            for _ in range(300 if tier == "quick" else 6000):
                merge_case(gen_merge_case(rng), sess)
    except Exception as ex:
        import traceback
        sess.inconclusive_because(f"harness error {type(ex).__name__}: {ex} @ {traceback.format_exc()[-500:]}")
    return sess.export()


def main(tier: str, seed: int):
    sess = Session(PID, tier, seed, level="exploration", rule=RULE)
    sess.assume("completion orders are forced by gating each task on an event; orders infeasible under the executor's FIFO hand-out (fewer workers than tasks) cannot occur and are not generated")
    sess.assume("T1/T2 twins use the real thread pool under a 1 us switch interval with random delays in the store's per-graph reads; no controlled scheduler inside the stage thunks")
    rng = random.Random(f"C09/{seed}")
    cases = gen_helper_cases(tier, rng)
    rng.shuffle(cases)
    nj = par.NWORK
    jobs = [("helper", tier, seed, cases[i::nj]) for i in range(nj)]
    jobs += [("t1", tier, seed, i) for i in range(5 if tier == "quick" else 14)]
    jobs += [("t2", tier, seed, i) for i in range(5 if tier == "quick" else 14)]
    jobs += [("merge", tier, seed, i) for i in range(2 if tier == "quick" else 8)]
    jobs += [("views", tier, seed, i) for i in range(2 if tier == "quick" else 8)]
    for ex in par.pmap(_work, jobs):
        sess.merge(ex)
    sess.extra["helper_cases_generated"] = len(cases)
    sess.exhaustive = False
    sess.require("run_parallel_calls", 1000)
    sess.require("t1_twins", 60)
    sess.require("t2_twins", 30)
    sess.require("t2_twins_with_2plus_shards", 10)
    sess.require("shard_merge_cases", 500)
    sess.require("shard_view_checks_2plus_views", 100)
    sess.require("t1_twins_with_warm_recalls", 20)
    sess.require("t1_twins_with_line_yield_injection", 20)
    sess.require("shard_merge_cases_with_ids_redelivered_by_later_tier", 50)
    sess.finish()


def replay(body, tier, seed):
    sess = Session(PID, tier, seed, rule=RULE)
    sess.replay_mode = True
    case = unjson(body["case"])
    if "failing" in case:
        helper_case(case, sess)
    elif "shards" in case:
        merge_case(case, sess)
    elif "graphs" in case:
        t1_twin(case, sess)
    else:
        t2_twin(case, sess)
    return sess.finish(exit_process=False)
