"""C07 - Delta snapshots reconstruct the full payload exactly.

Monitors:
  (1) round-trip law apply_delta(base, compute_delta(base, cur)) == cur under *type-exact*
      canonical JSON equality, on an exhaustively enumerated universe of small objects
      (all ordered pairs) plus random payload-shaped objects; inputs deep-compared before/after;
  (2) disk path: write_snapshot_auto(delta_mode=True) + read_snapshot with the baseline
      present (must return the payload), and with the baseline missing / truncated at every
      interesting offset / garbage / replaced by sidecar+temp decoys (must return the payload,
      {} or raise - never a wrongly reconstructed object).
"""
from __future__ import annotations

import contextlib
import logging
import copy
import io
import itertools
import json
import os
import random
import shutil
import tempfile
import time

from vlib import par
from vlib.session import Session, unjson

PID = "C07"
RULE = ("exhaustive ordered pairs over a universe of small JSON objects (<=2 top-level keys from "
        "{a,b,a.b,'',.}, values from scalars of every JSON type, lists and nested objects) plus random "
        "payload-shaped objects, plus on-disk write/read cases per baseline condition; "
        "non-trivial = base != cur and the computed delta is non-empty")

K0 = ["a", "b", "a.b", "", "."]
V0 = [1, 1.0, True, "x", None, [1], {}, {"a": 1}, {"": 1}, {"a.b": 1}, {"a": {}}]


def canon(o):
    """Type-exact canonical JSON: 1, 1.0 and true are different."""
    def enc(x):
        if isinstance(x, bool):
            return ["b", x]
        if isinstance(x, int):
            return ["i", str(x)]
        if isinstance(x, float):
            return ["f", repr(x)]
        if isinstance(x, str) or x is None:
            return x
        if isinstance(x, list):
            return ["l", [enc(v) for v in x]]
        if isinstance(x, dict):
            return {"d": {str(k): enc(v) for k, v in x.items()}}
        return ["?", repr(x)]
    return json.dumps(enc(o), sort_keys=True, ensure_ascii=True)


def universe():
    objs = [{}]
    for k in K0:
        for v in V0:
            objs.append({k: v})
    for k1, k2 in itertools.combinations(K0, 2):
        for v1 in V0:
            for v2 in V0:
                objs.append({k1: v1, k2: v2})
    return objs


def has_special_key(o):
    if isinstance(o, dict):
        return any(("." in k or k == "") for k in o) or any(has_special_key(v) for v in o.values())
    return False


def _type_change_only(base, cur):
    """True if base and cur are == under Python equality but differ type-exactly."""
    return base == cur and canon(base) != canon(cur)


def classify(base, cur, got):
    sk = has_special_key(base) or has_special_key(cur)
    if not sk:
        # no dotted/empty keys involved: is the residue purely a dropped bool/int/float type change?
        if got == cur and canon(got) != canon(cur):
            return "codec:scalar-type-change-dropped"
        return "codec:roundtrip-differs"
    # with special keys: does the same pair with keys renamed to plain identifiers round-trip?
    return "codec:key-contains-dot-or-empty"


def check_pair(base, cur, sess: Session, compute_delta, apply_delta):
    # private copies: the universe shares value objects between entries, and a codec that
    # aliases input structure into its output could otherwise corrupt later cases
    # (JSON round trip, not deepcopy: deepcopy preserves aliasing between sub-objects, and
    # JSON payloads are trees)
    base, cur = json.loads(json.dumps(base)), json.loads(json.dumps(cur))
    b0, c0 = json.loads(json.dumps(base)), json.loads(json.dumps(cur))
    try:
        delta = compute_delta(base, cur)
        got = apply_delta(base, delta)
    except Exception as e:
        sess.violation("codec:raises", {"kind": "pair", "base": b0, "cur": c0}, {"exc": type(e).__name__, "msg": str(e)[:200]})
        return False
    sess.count("roundtrips")
    try:
        mutated = canon(base) != canon(b0) or canon(cur) != canon(c0)
        ok = canon(got) == canon(c0)
    except RecursionError:
        mutated, ok, got = True, False, "<cyclic structure>"
    if mutated:
        mech = "codec:mutates-input"
        if has_special_key(b0) or has_special_key(c0):
            mech = "codec:key-contains-dot-or-empty"
        sess.violation(mech, {"kind": "pair", "base": b0, "cur": c0}, {"mutated_input": True})
    if not ok:
        sess.violation(classify(b0, c0, got), {"kind": "pair", "base": b0, "cur": c0}, {"delta": delta, "got": got})
    else:
        # aliasing: the result must not share mutable structure with base in a way that a later
        # write to the result changes base (apply_delta deep-copies) - cheap probe
        pass
    nontriv = canon(b0) != canon(c0) and any(delta.get(k) for k in ("_adds", "_mods", "_dels"))
    return nontriv


def _exh_chunk(args):
    tier, seed, idx, n = args
    from vlib import bootstrap

    bootstrap.init()
    from clematis.engine.util.snapshot_delta import compute_delta, apply_delta

    sess = Session.worker(PID, tier, seed)
    U = universe()
    N = len(U)
    total = N * N
    # every ordered pair, both tiers (about 1.6M round trips, ~15 s on 14 cores)
    for p in range(idx, total, n):
        b = U[p // N]
        c = U[p % N]
        nt = check_pair(b, c, sess, compute_delta, apply_delta)
        sess.evaluations += 1
        if nt:
            sess.nontrivial.add(p)
    sess.count("universe_objects", 0)
    return sess.export()


WORDS = ["weights", "gel", "edges", "nodes", "meta", "version_etag", "user.name", "a.b.c", "", "x", "é", "k" * 40, "0", "null",
         # characters that str.splitlines() / text-mode readers treat as line ends, and other code points a JSON text may carry raw
         "a\u2028b", "\u2029", "x\x85y", "v\x0bt", "f\x0cf", "\x1c\x1d\x1e", "cr\rlf\n", "tab\t", "\u00a0", "中→文", "\U0001f600", "q\"uote", "back\\slash", "\x00nul", "\ufeffbom",
         # spellings that Unicode normalisation / case folding would merge with one another (they are different keys)
         "e\u0301", "\u00e9", "\u212b", "\u00c5", "A\u030a", "\ufb01", "fi", "\u1e9b\u0323", "\u00df", "ss", "SS", "\u0130", "i\u0307", "K", "\u212a", " x", "x ", "X"]
STRS = ["s", "", "line\u2028sep", "para\u2029sep", "nel\x85", "vt\x0bff\x0c", "fs\x1c", "crlf\r\n", "中→", "\U0001f600", "\x00", "\ufeff"]


def rand_obj(rng, depth=0):
    n = rng.randint(0, 5 if depth == 0 else 3)
    if depth == 0 and rng.random() < 0.15:
        n = rng.randint(8, 14)  # a wide top level
    o = {}
    for _ in range(n):
        k = rng.choice(WORDS) if rng.random() < 0.7 else "".join(rng.choice("ab.é \\") for _ in range(rng.randint(0, 4)))
        r = rng.random()
        if r < 0.35 and depth < 3:
            o[k] = rand_obj(rng, depth + 1)
        elif r < 0.45:
            o[k] = [rng.choice([1, 1.0, "s", None, True, {"a": 1}, rng.choice(STRS)]) for _ in range(rng.randint(0, 3))]
        else:
            o[k] = rng.choice([0, 1, -1, 1.0, 0.5, True, False, None, "s", "", 1e300, -0.0, 2 ** 63, 0.1 + 0.2, rng.choice(STRS), rng.choice(STRS)])
    return o


def mutate(rng, o):
    c = copy.deepcopy(o)
    if isinstance(c, dict) and len(c) >= 8 and rng.random() < 0.6:
        # nearly everything changed at once
        for k in list(c):
            if rng.random() < 0.9:
                c[k] = rng.choice([7, "changed", None, {"n": 1}, [1, 2], 2.5])
        return c
    for _ in range(rng.randint(0, 4)):
        tgt = c
        # descend randomly
        while isinstance(tgt, dict) and tgt and rng.random() < 0.5:
            k = rng.choice(list(tgt.keys()))
            if isinstance(tgt[k], dict):
                tgt = tgt[k]
            else:
                break
        if not isinstance(tgt, dict):
            continue
        r = rng.random()
        if r < 0.3 and tgt:
            del tgt[rng.choice(list(tgt.keys()))]
        elif r < 0.6 and tgt:
            k = rng.choice(list(tgt.keys()))
            v = tgt[k]
            tgt[k] = rng.choice([1 if v is True else True, float(v) if isinstance(v, int) and not isinstance(v, bool) and abs(v) < 2 ** 53 else 7,
                                 {}, {"a": v}, [v], None, "s"])
        else:
            tgt[rng.choice(WORDS)] = rand_obj(rng, 2) if rng.random() < 0.5 else rng.choice([1, "x", None, 2.5])
    return c


def _rand_chunk(args):
    tier, seed, idx, n = args
    from vlib import bootstrap

    bootstrap.init()
    from clematis.engine.util.snapshot_delta import compute_delta, apply_delta

    sess = Session.worker(PID, tier, seed)
    rng = random.Random(f"{PID}-r-{seed}-{idx}")
    for i in range(n):
        b = rand_obj(rng)
        c = mutate(rng, b) if rng.random() < 0.8 else rand_obj(rng)
        nt = check_pair(b, c, sess, compute_delta, apply_delta)
        sess.case(("r", canon(b), canon(c)), nontrivial=nt, sample={"base": b, "cur": c} if i < 1 else None)
        sess.count("random_pairs")
    return sess.export()


# ---------------------------------------------------------------------------------------
BASE_CONDS = ["present", "deleted_keep_sidecar", "deleted_all", "truncated", "garbage", "empty_file",
              "decoy_tmp_only", "is_directory", "header_only", "array_json"]


def disk_case(case, sess: Session):
    from clematis.engine.snapshot import write_snapshot_auto, read_snapshot

    base, cur, cond = case["base"], case["cur"], case["cond"]
    d = tempfile.mkdtemp(prefix="c07_", dir="/var/tmp")
    err = io.StringIO()
    try:
        with contextlib.redirect_stderr(err):
            p_full, wd0 = write_snapshot_auto(d, etag_from=None, etag_to="A", payload=base, delta_mode=False)
            p_delta, wrote_delta = write_snapshot_auto(d, etag_from="A", etag_to="B", payload=cur, delta_mode=True)
        sess.count("disk_writes", 2)
        if not wrote_delta:
            sess.violation("disk:delta-not-written-with-baseline-present", case, {"path": p_delta})
            return
        sess.count("delta_files_written")
        raw = open(p_full, "rb").read()
        if cond == "present":
            # file times are not part of the format: the baseline may be younger than the delta (re-written, restored, copied)
            tw = case.get("touch")
            if tw == "baseline-newer":
                os.utime(p_full, (time.time() + 500, time.time() + 500))
            elif tw == "delta-older":
                os.utime(p_delta, (1_000_000_000, 1_000_000_000))
            elif tw == "both-epoch":
                os.utime(p_full, (0, 0))
                os.utime(p_delta, (0, 0))
        elif cond == "deleted_keep_sidecar":
            os.unlink(p_full)
        elif cond == "deleted_all":
            os.unlink(p_full)
            with contextlib.suppress(FileNotFoundError):
                os.unlink(p_full + ".meta")
        elif cond == "truncated":
            k = case.get("cut", len(raw) // 2) % max(1, len(raw))
            open(p_full, "wb").write(raw[:k])
        elif cond == "garbage":
            open(p_full, "wb").write(b"\x00\xff\xfe garbage {" * 3)
        elif cond == "empty_file":
            open(p_full, "wb").write(b"")
        elif cond == "decoy_tmp_only":
            os.unlink(p_full)
            open(p_full + ".a1b2c3d4", "wb").write(raw[: len(raw) // 2])
            open(p_full + ".tmp", "wb").write(b'{"weights": {"decoy": 1}}')
        elif cond == "is_directory":
            os.unlink(p_full)
            os.mkdir(p_full)
        elif cond == "header_only":
            open(p_full, "wb").write(raw.split(b"\n", 1)[0] + b"\n")
        elif cond == "array_json":
            open(p_full, "wb").write(b'{"schema":"snapshot:v1","mode":"full","etag_to":"A","codec":"none","level":0}\n[1,2,3]')
        if cond == "present" and case.get("next") is not None:
            # a chain: the third snapshot is requested as a delta of B, which exists only as a delta file itself (no
            # snapshot-B.full): whatever the writer decides to write must read back as the third payload
            nxt = case["next"]
            try:
                with contextlib.redirect_stderr(err):
                    logging.disable(logging.CRITICAL)
                    try:
                        p_c, wd_c = write_snapshot_auto(d, etag_from="B", etag_to="C", payload=nxt, delta_mode=True)
                        got_p = read_snapshot(path=p_c)
                        got_r = read_snapshot(root=d, etag_to="C")
                    finally:
                        logging.disable(logging.NOTSET)
                sess.count("chain_third_snapshots")
                want = canon(json.loads(json.dumps(nxt)))
                if canon(got_p) != want or canon(got_r) != want:
                    sess.violation("disk:chain:third-snapshot-does-not-read-back", case, {"wrote_delta": wd_c, "by_path": got_p, "by_etag": got_r})
            except Exception as e:
                sess.violation("disk:chain:raises", case, {"exc": type(e).__name__, "msg": str(e)[:200]})
        for how in ("path", "root"):
            try:
                with contextlib.redirect_stderr(err):
                    logging.disable(logging.CRITICAL)
                    try:
                        if how == "path":
                            got = read_snapshot(path=p_delta)
                        else:
                            got = read_snapshot(root=d, etag_to="B")
                    finally:
                        logging.disable(logging.NOTSET)
                raised = None
            except Exception as e:  # reporting absence by raising is acceptable when the baseline is unusable
                got = None
                raised = type(e).__name__
            sess.count(f"disk_reads_{cond}")
            if cond == "present":
                if raised or canon(got) != canon(json.loads(json.dumps(cur))):
                    mech = "disk:" + (classify(base, cur, got) if not raised else "read-raises-with-baseline-present")
                    sess.violation(mech, case, {"how": how, "got": got, "raised": raised})
            else:
                if raised is None and got != {} and canon(got) != canon(json.loads(json.dumps(cur))):
                    sess.violation(f"disk:wrong-reconstruction-baseline-{cond}", case, {"how": how, "got": got})
        if cond == "present":
            # the same step (A -> B) written once more with ANOTHER payload (a re-snapshot without a new etag): the files now
            # describe the second payload
            again = case.get("next") if case.get("next") is not None else dict(json.loads(json.dumps(base)), rewritten={"k": [1, 2]})
            try:
                with contextlib.redirect_stderr(err):
                    logging.disable(logging.CRITICAL)
                    try:
                        p_again, wd_again = write_snapshot_auto(d, etag_from="A", etag_to="B", payload=again, delta_mode=True)
                        got_p = read_snapshot(path=p_again)
                        got_r = read_snapshot(root=d, etag_to="B")
                    finally:
                        logging.disable(logging.NOTSET)
                sess.count("steps_rewritten_with_another_payload")
                want = canon(json.loads(json.dumps(again)))
                if canon(got_p) != want or canon(got_r) != want:
                    sess.violation("disk:rewritten-step-still-reads-as-the-first-payload", case, {"wrote_delta": wd_again, "by_path": got_p, "by_etag": got_r})
            except Exception as e:
                sess.violation("disk:rewrite-of-a-step-raises", case, {"exc": type(e).__name__, "msg": str(e)[:200]})
        if cond == "present":
            # a step that arrives nowhere new (A -> A, nothing changed: a no-op turn) and an etag that exists in both renditions
            # (X as a full file, then X again as a delta of A, then Y as a delta of X): every written etag still reads back
            try:
                with contextlib.redirect_stderr(err):
                    logging.disable(logging.CRITICAL)
                    try:
                        write_snapshot_auto(d, etag_from="A", etag_to="A", payload=base, delta_mode=True)
                        got_a = read_snapshot(root=d, etag_to="A")
                        write_snapshot_auto(d, etag_from=None, etag_to="X", payload=cur, delta_mode=False)
                        write_snapshot_auto(d, etag_from="A", etag_to="X", payload=cur, delta_mode=True)
                        y_pay = dict(json.loads(json.dumps(cur)), y_marker=[1, {"z": None}])
                        p_y, _ = write_snapshot_auto(d, etag_from="X", etag_to="Y", payload=y_pay, delta_mode=True)
                        got_x = read_snapshot(root=d, etag_to="X")
                        got_y = read_snapshot(path=p_y)
                        got_a2 = read_snapshot(root=d, etag_to="A")
                    finally:
                        logging.disable(logging.NOTSET)
                sess.count("no_op_steps_and_double_renditions")
                bad_ = [n_ for n_, g_, w_ in (("A after A->A", got_a, base), ("X", got_x, cur), ("Y", got_y, y_pay), ("A at the end", got_a2, base))
                        if canon(g_) != canon(json.loads(json.dumps(w_)))]
                if bad_:
                    sess.violation("disk:etag-unreadable-after-a-later-write-of-the-same-etag", case, {"unreadable": bad_})
            except Exception as e:
                sess.violation("disk:rewrite-of-a-step-raises", case, {"exc": type(e).__name__, "msg": str(e)[:200]})
        # asking for the removed full snapshot itself must report absence (or raise), never hand
        # back a sidecar / temp file as if it were the payload
        if cond in ("deleted_keep_sidecar", "decoy_tmp_only", "is_directory"):
            try:
                logging.disable(logging.CRITICAL)
                with contextlib.redirect_stderr(err):
                    gotA = read_snapshot(root=d, etag_to="A")
                raisedA = None
            except Exception as e:
                gotA, raisedA = None, type(e).__name__
            finally:
                logging.disable(logging.NOTSET)
            sess.count("absent_full_reads")
            if raisedA is None and gotA != {} and canon(gotA) != canon(json.loads(json.dumps(base))):
                sess.violation(f"disk:absent-full-read-returns-foreign-object-{cond}", case, {"got": gotA})
        # writer side: baseline unusable -> a *new* delta request must fall back to a full file
        if cond in ("deleted_keep_sidecar", "deleted_all", "decoy_tmp_only", "is_directory"):
            try:
                with contextlib.redirect_stderr(err):
                    p3, wd3 = write_snapshot_auto(d, etag_from="A", etag_to="C", payload=cur, delta_mode=True)
                sess.count("writer_fallback_probes")
                if wd3:
                    sess.violation(f"disk:writer-emits-delta-without-baseline-{cond}", case, {"path": p3})
                else:
                    got = read_snapshot(path=p3)
                    if canon(got) != canon(json.loads(json.dumps(cur))):
                        sess.violation("disk:fallback-full-not-readable", case, {"got": got})
            except Exception as e:
                sess.violation(f"disk:writer-raises-without-baseline-{cond}", case, {"exc": type(e).__name__, "msg": str(e)[:200]})
    finally:
        shutil.rmtree(d, ignore_errors=True)


def _disk_chunk(args):
    tier, seed, idx, n = args
    from vlib import bootstrap

    bootstrap.init()
    sess = Session.worker(PID, tier, seed)
    rng = random.Random(f"{PID}-d-{seed}-{idx}")
    for i in range(n):
        b = rand_obj(rng)
        while not b and rng.random() < 0.7:  # an empty object is a legal baseline payload (kept in a minority of cases)
            b = rand_obj(rng)
        c = mutate(rng, b) if b else rand_obj(rng)
        cond = BASE_CONDS[(i + idx) % len(BASE_CONDS)] if i % 3 else "present"
        case = {"kind": "disk", "base": b, "cur": c, "cond": cond, "cut": rng.randint(0, 10 ** 6), "next": mutate(rng, c) if rng.random() < 0.6 else None, "touch": rng.choice([None, None, "baseline-newer", "delta-older", "both-epoch"])}
        if not b:
            sess.count("disk_cases_with_empty_baseline_payload")
        disk_case(case, sess)
        sess.case(("d", canon(b), canon(c), cond, case["cut"]), nontrivial=(canon(b) != canon(c)),
                  sample=case if i < 1 and idx < 2 else None)
    return sess.export()


DIRECTED = [
    ({"a.b": 1}, {}), ({}, {"a.b": 1}), ({"": 1}, {}), ({}, {"": 1}), ({"a": 1}, {"a": True}), ({"a": 1}, {"a": 1.0}),
    ({"a": {"b": 1}, "a.b": 2}, {"a": {"b": 1}}), ({"b": {"x": 1}}, {"b": {}}), ({"a": [1]}, {"a": [1.0]}),
    ({"weights": {"user.name": 0.5}}, {"weights": {"user.name": 0.25, "other": 1}}),
    ({"a": 0.0}, {"a": -0.0}), ({"a\\.b": 1, "a\\": {"b": 2}}, {"a\\": {"b": 3}}), ({"a": {"": {"": 1}}}, {"a": {"": {}}}),
]


def main(tier: str, seed: int):
    sess = Session(PID, tier, seed, level="exploration", rule=RULE)
    sess.assume("only the 'none' codec exists in this image (zstandard is not installed; the writer degrades to none)")
    sess.assume("JSON objects have string keys; NaN leaves are excluded from pairs (NaN != NaN makes equality undefined)")
    sess.assume("baseline corruption = missing / truncated / garbage / wrong JSON shape; a well-formed baseline with different content under the same etag is indistinguishable to the reader and is not generated")
    from clematis.engine.util.snapshot_delta import compute_delta, apply_delta

    for b, c in DIRECTED:
        nt = check_pair(b, c, sess, compute_delta, apply_delta)
        sess.case(("dir", canon(b), canon(c)), nontrivial=nt, sample={"base": b, "cur": c})
        for cond in ("present", "deleted_keep_sidecar", "header_only", "decoy_tmp_only"):
            disk_case({"kind": "disk", "base": b, "cur": c, "cond": cond, "cut": 5, "next": {"chain": [1, 2], **c}}, sess)
    U = universe()
    sess.extra["universe_objects"] = len(U)
    sess.extra["universe_pairs"] = len(U) * len(U)
    n = par.NWORK
    for ex in par.pmap(_exh_chunk, [(tier, seed, i, n) for i in range(n)]):
        sess.merge(ex)
    sess.exhaustive = True
    sess.extra["exhaustive_scope"] = "all ordered pairs of the enumerated universe (universe_pairs); random and disk cases are sampled"
    nr = 6000 if tier == "quick" else 60000
    for ex in par.pmap(_rand_chunk, [(tier, seed, i, nr // n) for i in range(n)]):
        sess.merge(ex)
    nd = 800 if tier == "quick" else 12000
    for ex in par.pmap(_disk_chunk, [(tier, seed, i, max(1, nd // n)) for i in range(n)]):
        sess.merge(ex)
    sess.require("roundtrips", 5000)
    sess.require("delta_files_written", 50)
    sess.require("chain_third_snapshots", 60)
    sess.require("disk_cases_with_empty_baseline_payload", 10)
    sess.require("disk_reads_present", 10)
    sess.require("disk_reads_deleted_keep_sidecar", 10)
    sess.finish()


def replay(body, tier, seed):
    from clematis.engine.util.snapshot_delta import compute_delta, apply_delta

    sess = Session(PID, tier, seed, rule=RULE)
    sess.replay_mode = True
    case = unjson(body["case"])
    if case.get("kind") == "disk":
        disk_case(case, sess)
    else:
        check_pair(case["base"], case["cur"], sess, compute_delta, apply_delta)
    return sess.finish(exit_process=False)
