"""C01 - Turn execution is reproducible byte-for-byte.

Every scenario (world, validated config with gates, 3-8 turns over 1-3 agents, half with injected plans so
that T4/apply/snapshots carry data) is replayed in a reference worker process (PYTHONHASHSEED=0, real
clocks) and in variant workers; the oracle is byte equality of the captured artefact bundle - utterances,
canonical streams t1/t2/t4/apply/turn/health (scheduler.jsonl with consumed.ms masked), snapshot bodies -
after replacing the per-run directory prefixes:
  hash     PYTHONHASHSEED in {1, 2, 4242, random}
  clock    virtual perf_counter / time.time bound into core/apply/snapshot: epoch offsets, time running
           backwards, perf_counter frozen / slow / 1000x (time budgets set far above, they are declared inputs)
  warm     the scenario executed twice in one process on fresh states, process-global caches kept; and
           "warm-perturbed": executed first under a perturbed copy of its config (every numeric leaf moved inside its
           range), then under the real one - module state keyed on part of a config cannot hide behind an equal key
  jitter   1 us switch interval + random delays in the store reads (parallel T1 scenarios)
  cwd      another working directory
  now      ctx.now unset (now_ms supplied) under a shifted datetime.now
(A "reused ctx object" variant was tried and dropped: the ctx deliberately carries the scheduler's slice counter
from turn to turn, so a reused ctx is a different input, not a perturbation.)
"""
from __future__ import annotations

import copy
import os
import random

from vlib import par
from vlib.session import Session, unjson, chash

PID = "C01"
RULE = ("one evaluation = one variant replay compared with the reference replay of the same scenario; non-trivial = the "
        "scenario touched >= 2 nodes, retrieved >= 1 episode and wrote a snapshot in at least one turn")
CANON = ("t1.jsonl", "t2.jsonl", "t4.jsonl", "apply.jsonl", "turn.jsonl", "health.jsonl", "scheduler.jsonl")
# cache diagnostics: hit/miss counters and the gauges that are only measured on a fresh computation
DIAG_T1 = {"$.cache_hits", "$.cache_misses", "$.cache_used", "$.max_delta", "$.t1.cache_evictions", "$.t1.cache_bytes",
           "$.t1_frontier_evicted", "$.t1_dedup_hits", "$.t1_visited_evicted"}
DIAG_T2 = {"$.cache_hits", "$.cache_misses", "$.cache_used", "$.t2.cache_evictions", "$.t2.cache_bytes"}


def gen_scenario(rng, cp=None):
    from vlib.world import gen_world
    from vlib.cfggen import gen_cfg, gen_turns

    world = gen_world(rng, ngraphs=(1, 3), neps=(0, 24))
    cfg = gen_cfg(rng)
    turns = gen_turns(rng, world)
    boot = rng.random() < 0.4
    if rng.random() < 0.2:
        # GEL-active class: the graph layer is on, retrieval returns several episodes per turn (co-activation edges,
        # merge / split / promotion bookkeeping) and the state boots through the real loader
        from vlib.cfggen import gate_cfg, merge
        world = gen_world(rng, ngraphs=(1, 2), neps=(8, 24))
        cfg = merge(cfg, gate_cfg(rng, "gel", True))
        cfg["graph"]["coactivation_threshold"] = 0.0
        cfg["t2"].update({"sim_threshold": -1.0, "k_retrieval": max(4, cfg["t2"]["k_retrieval"]), "owner_scope": "any"})
        cfg["t2"].pop("tiers", None)
        turns = gen_turns(rng, world, n=(3, 6))
        boot = rng.random() < 0.7
    if rng.random() < 0.3:
        # propagation-sensitive class: decay configured, a per-node budget just above a seed's own activation and texts naming several labels, so that the
        # spreading factors decide which nodes saturate (the result is sensitive to every T1 knob)
        cfg["t1"]["decay"] = rng.choice([{"mode": "attn_quad", "alpha": rng.choice([0.8, 0.3, 2.0])}, {"mode": "attn_quad", "alpha": rng.choice([0.5, 1.0])},
                                        {"mode": "exp_floor", "rate": rng.choice([0.6, 0.9]), "floor": 0.05}])
        cfg["t1"]["node_budget"] = rng.choice([1.2, 1.5, 1.05])
        cfg["t1"].pop("queue_budget", None)
        cfg["t1"].pop("iter_cap", None)
        cfg["t1"].pop("radius_cap", None)
        labs = sorted({n[1] for g in world["graphs"].values() for n in g["nodes"] if n[1]})
        for t in turns:
            t["text"] = " ".join(rng.sample(labs, min(len(labs), 3))) + " " + t["text"]
    if rng.random() < 0.2:
        # threaded class: parallel T1 over several graphs under scheduler slice budgets and small perf caches - everything
        # the worker threads could share (budgets, caches, scratch state) is in play
        from vlib.cfggen import gate_cfg, merge
        world = gen_world(rng, ngraphs=(2, 3), neps=(0, 12))
        cfg = merge(cfg, gate_cfg(rng, "parallel", True))
        cfg = merge(cfg, {"scheduler": {"enabled": True, "policy": "round_robin", "quantum_ms": 10 ** 8,
                                        "budgets": {"t1_pops": rng.choice([1, 2, 3, 5]), "t1_iters": rng.choice([None, 1, 2]), "t2_k": None, "t3_ops": None, "wall_ms": 10 ** 9}}})
        cfg["t1"]["cache"] = {"enabled": rng.random() < 0.5}
        turns = gen_turns(rng, world, n=(3, 5))
        labs = sorted({n[1] for g in world["graphs"].values() for n in g["nodes"] if n[1]})
        for t in turns:
            t["text"] = " ".join(rng.sample(labs, min(len(labs), 4))) + " " + t["text"]
        boot = False
    if rng.random() < 0.2:
        # logical clock at / around the epoch (now_ms = 0 is a legal logical time): memories dated relative to it
        import datetime as _dt
        base = rng.choice([0, 0, 0, 1000])
        turns = gen_turns(rng, world, base_ms=base)
        for j, e in enumerate(world["eps"]):
            e["ts"] = (_dt.datetime.fromtimestamp(base / 1000, tz=_dt.timezone.utc) - _dt.timedelta(days=(j * 7) % 50, hours=j)).isoformat().replace("+00:00", "Z")
        cfg["t2"]["ranking"] = {"alpha_sim": 0.3, "beta_recency": 1.0, "gamma_importance": 0.0}
        cfg["t2"]["exact_recent_days"] = 30
        cfg["t2"].pop("tiers", None)
    if cp == "cluster-tie" or rng.random() < 0.15:
        # cluster-tie class: old memories without an explicit cluster id and with identical texts (equal scores), so that the
        # cluster tier has to break ties at its top-m boundary
        base_txt = [" ".join(rng.sample(["hello", "world", "moon", "river", "cat", "tree"], 2)) for _ in range(2)]
        world["eps"] = [{"id": f"ct{j:02d}", "owner": rng.choice(["A", "world"]), "text": base_txt[j % 2], "ts": "2021-03-0%dT00:00:00Z" % (1 + j % 9), "vec": "enc",
                         "aux": {"importance": 0.5}} for j in range(rng.randint(6, 12))]
        cfg["t2"].update({"tiers": rng.choice([["cluster_semantic"], ["exact_semantic", "cluster_semantic"], ["cluster_semantic", "archive"]]), "clusters_top_m": rng.choice([1, 2, 3]),
                          "k_retrieval": rng.choice([2, 4, 8]), "sim_threshold": -1.0, "owner_scope": "any", "exact_recent_days": 30})
        if not cfg["t3"].get("dialogue"):
            cfg["t3"]["dialogue"] = {"template": "{snippets_text}; {labels} -> {intent}", "include_top_k_snippets": 3}
    if rng.random() < 0.15:
        # tier-walk class: a small k, memories of mixed age and a tier list in which a tier is repeated - which tier is walked
        # first decides what is retrieved
        tl = rng.sample(["exact_semantic", "cluster_semantic", "archive"], rng.randint(2, 3))
        cfg["t2"].update({"tiers": tl + [rng.choice(tl)], "k_retrieval": rng.choice([1, 2, 2]), "sim_threshold": -1.0, "owner_scope": "any", "exact_recent_days": 30})
        for j, e in enumerate(world["eps"]):
            e["ts"] = ["2023-11-10T00:00:00Z", "2021-06-01T00:00:00Z", "2022-01-15T00:00:00Z"][j % 3]
        if not cfg["t3"].get("dialogue"):
            cfg["t3"]["dialogue"] = {"template": "{snippets_text}; {labels} -> {intent}", "include_top_k_snippets": 3}
    if rng.random() < 0.25:
        # the same request repeated (same agent, text, logical time) with the stage caches on: the hit paths run
        for t in turns[1:]:
            if rng.random() < 0.7:
                t["agent"], t["text"], t["now_ms"] = turns[0]["agent"], turns[0]["text"], turns[0]["now_ms"]
        cfg["t1"]["cache"] = {"enabled": True, "ttl_s": rng.choice([0, 0, 300])}
        cfg["t2"]["cache"] = {"enabled": True, "ttl_s": rng.choice([0, 0, 300])}
        cfg["t4"]["cache"] = {"enabled": True, "namespaces": ["t2:semantic"], "ttl_sec": rng.choice([0, 600])}
    if cp in ("wide", "tiny") or rng.random() < 0.15:
        # cache-pressure class: a T1 result cache of 16 entries, eight different questions over two or three graphs (more keys
        # than entries), each asked twice - which entries survive decides the hit counters of the second round
        world = gen_world(rng, ngraphs=(2, 3), neps=(0, 6))
        labs = sorted({n[1] for g in world["graphs"].values() for n in g["nodes"] if n[1]}) or ["hello"]
        qs = []
        for j in range(12):
            qs.append(" ".join(rng.sample(labs, min(len(labs), 1 + j % 3))) + f" q{j}")
        order = qs + qs
        cap_ = 16
        if (cp == "tiny") or (cp is None and rng.random() < 0.5):
            # ... or a tiny cache and a revisiting pattern in which least-recently-USED and first-inserted differ
            world = gen_world(rng, ngraphs=(1, 1), neps=(0, 6))
            labs = sorted({n[1] for g in world["graphs"].values() for n in g["nodes"] if n[1]}) or ["hello"]
            qs = [" ".join(rng.sample(labs, min(len(labs), 1 + j % 2))) + f" q{j}" for j in range(4)]
            order = [qs[j] for j in (0, 1, 0, 2, 1, 0, 3, 0, 2, 1)]
            cap_ = 2
        turns = [{"agent": "A", "text": q, "turn": i + 1, "now_ms": 1_700_000_000_000 + 1000 * i} for i, q in enumerate(order)]
        cfg["t1"]["cache"] = {"enabled": True, "max_entries": cap_, "ttl_s": 0}
        cfg["t4"]["enabled"] = False  # the graphs stay as they are: their cache entries stay valid
        # sequential propagation: with the parallel fan-out the insertion order into the bounded cache follows thread timing
        # (the open known finding of this property) and would show under any variant
        cfg.setdefault("perf", {})["parallel"] = {"enabled": False}
        boot = False
    # some scenarios boot from an (empty) snapshot directory: the first turn runs the real boot loader
    sc = {"world": world, "cfg": cfg, "turns": turns, "boot_from_snapshot": boot}
    if len(turns) >= 3 and rng.random() < 0.3:
        # the engine is restarted in the middle of the scenario: a fresh state boots from the snapshots written so far
        # (several agents have written into the shared directory by then; plans on every turn so that they do)
        sc["reboot_at"] = rng.randint(2, len(turns) - 1)
        cfg["t4"]["snapshot_every_n_turns"] = 1
        ags = ["Zed", "Amy", "Moe"]
        for j, t in enumerate(turns):
            if j < sc["reboot_at"]:
                t["agent"] = ags[j % len(ags)]
            t.setdefault("plan", {"ops": [{"kind": "Speak"}, {"kind": "EditGraph"}], "deltas": [["node", f"n:{'abcd'[j % 4]}", "weight", 0.1 + 0.05 * j, 1]], "reflection": False})
    return sc


def variants_for(sc, rng, tier):
    vs = [("hash", {"PYTHONHASHSEED": "1"}, {}), ("hash", {"PYTHONHASHSEED": "4242"}, {}), ("hash", {"PYTHONHASHSEED": "random"}, {}),
          ("clock", {}, {"vclock": {"pc_step": 0.0, "wall": 1.0e9, "wall_step": 0.0, "global_wall": 1.0e9}}),
          ("clock", {}, {"vclock": {"pc_step": 0.0137, "wall": 4.0e9, "wall_step": -3.5}}),
          # a wall clock that leaps ahead at every reading (a stalled machine): whatever measures itself with it looks very slow
          ("clock", {}, {"vclock": {"pc_step": 0.0, "wall": 1.0e9, "wall_step": 1.0e6}}),
          ("warm", {}, {"warm": True}),
          ("warm-perturbed", {}, {"warm_perturbed": True}),
          ("warm-recycled", {}, {"warm_recycled": True}),
          ("cwd", {}, {"cwd": "/var/tmp/c01_cwd_%d" % rng.randint(0, 10 ** 9)})]
    par_on = bool(((sc["cfg"].get("perf") or {}).get("parallel") or {}).get("enabled"))
    if par_on or tier != "quick":
        vs.append(("jitter", {"PYTHONHASHSEED": "2"}, {"jitter": rng.randint(1, 10 ** 6)}))
    if tier != "quick":
        vs += [("hash", {"PYTHONHASHSEED": "2"}, {}), ("clock", {}, {"vclock": {"pc_step": 1e-7, "wall": 0.0, "wall_step": 1e6}}),
               ("jitter", {"PYTHONHASHSEED": "7"}, {"vclock": {"pc_step": 0.002, "wall": 2.0e9, "wall_step": 0.0}, "jitter": 5})]  # thread jitter on a virtual clock
    # ctx.now unset (the run_smoke_turn shape): the wall-clock date is placed near the scenario's logical clock in the
    # baseline and 45 / 400 days away from it in the variant - the logical clock (now_ms) is the same in both
    base_ms = sc["turns"][0]["now_ms"]
    vs.append(("now-unset", {}, {"now_none": True, "datetime_target_ms": base_ms + rng.choice([45, -45, 400]) * 86400000}))
    return vs


def to_bundle(out):
    return {"lines": out["lines"], "excs": out["excs"], "logs": {k: v.encode("utf-8", "surrogateescape") for k, v in out["logs"].items() if k in CANON},
            "snaps": {k: v.encode("utf-8", "surrogateescape") for k, v in out["snaps"].items()}}


def check_scenario(sc, sess: Session, rng, tier):
    from vlib.turn import diff_bundles, diff_paths
    import json

    ref = par.run_py("vlib.replayworker", {"scenario": sc, "variant": {}}, env={"PYTHONHASHSEED": "0"}, timeout=300)
    if not ref["ok"]:
        if ref["timeout"]:
            sess.inconclusive_because("reference worker watchdog fired")
        elif "ConfigError" in ref["stderr"]:
            sess.count("cfg_rejected_by_validator")
        else:
            sess.inconclusive_because("reference worker failed: " + ref["stderr"][-300:])
        return
    rb = to_bundle(ref["out"])
    if any(ref["out"]["excs"]):
        sess.count("scenarios_with_raising_turns")
        sess.seen("reference_exceptions", ref["out"]["tbs"][0][-160:] if ref["out"]["tbs"] else "?")
    nontrivial = False
    try:
        t1 = [json.loads(l) for l in ref["out"]["logs"].get("t1.jsonl", "").splitlines() if l]
        t2 = [json.loads(l) for l in ref["out"]["logs"].get("t2.jsonl", "").splitlines() if l]
        nontrivial = any(r.get("propagations", 0) >= 1 for r in t1) and any(r.get("k_returned", 0) >= 1 for r in t2) and bool(rb["snaps"])
    except Exception:
        pass
    # reference run in the NOW-unset shape is its own baseline (same shape, unshifted date)
    ref_now = None
    jobs = variants_for(sc, rng, tier)

    def run(v):
        name, env, variant = v
        return v, par.run_py("vlib.replayworker", {"scenario": sc, "variant": variant}, env=env, timeout=300)

    for (name, env, variant), res in par.tmap(run, jobs, workers=4):
        if variant.get("cwd"):
            import shutil
            shutil.rmtree(variant["cwd"], ignore_errors=True)
        case = {"scenario": sc, "variant_name": name, "env": env, "variant": variant}
        if not res["ok"]:
            if res["timeout"]:
                sess.inconclusive_because("variant worker watchdog fired")
            else:
                sess.violation(f"{name}:worker-crashed", case, res["stderr"][-400:])
            continue
        sess.evaluations += 1
        sess.count("variant_replays_compared")
        sess.count("variant:" + name)
        sess.sample({"variant": name, "env": env, "variant_args": variant, "turns": sc["turns"][:2], "cfg": sc["cfg"], "graphs": len(sc["world"]["graphs"]), "episodes": len(sc["world"]["eps"])})
        vb = to_bundle(res["out"])
        base = rb
        if name == "warm-recycled":
            for k_ in res["out"].get("_recycled") or []:
                sess.count("warm_recycled:" + k_ + "_on_a_dead_object's_address")
        if name == "now-unset":
            if ref_now is None:
                r0 = par.run_py("vlib.replayworker", {"scenario": sc, "variant": {"now_none": True, "datetime_target_ms": sc["turns"][0]["now_ms"]}}, env={"PYTHONHASHSEED": "0"}, timeout=300)
                if not r0["ok"]:
                    continue
                ref_now = to_bundle(r0["out"])
            base = ref_now
        if nontrivial:
            sess.nontrivial.add(chash((sc["turns"], name, env, variant)))
        if vb == base:
            continue
        diffs = diff_bundles(base, vb)
        paths = diff_paths(base, vb)
        mech = f"{name}:differs"
        if name in ("warm", "jitter", "warm-perturbed", "warm-recycled"):
            only_diag = all((p.startswith("t1.jsonl:") and p.split(":", 1)[1] in DIAG_T1) or (p.startswith("t2.jsonl:") and p.split(":", 1)[1] in DIAG_T2) for p in paths)
            if only_diag and paths:
                mech = f"{'warm' if name in ('warm-perturbed', 'warm-recycled') else name}:stage-cache-diagnostics-in-canonical-logs"
        if name == "now-unset":
            mech = "now-unset:retrieval-follows-wall-clock-date"
        sess.violation(mech, case, {"paths": paths[:8], "diffs": diffs[:4]})


def _chunk(args):
    tier, seed, i, n = args
    from vlib import bootstrap

    bootstrap.init()
    rng = random.Random(f"C01/{seed}/{i}")
    sess = Session.worker(PID, tier, seed)
    # both flavours of the cache-pressure class and several cluster-tie scenarios are in every run
    forced = {0: "wide", 1: "tiny", 2: "cluster-tie", 3: "cluster-tie", 4: "cluster-tie", 5: "cluster-tie"}.get(i)
    if forced:
        # (an extra scenario from its own random stream: the random scenarios below are what they would be without it)
        frng = random.Random(f"C01/forced/{seed}/{i}")
        try:
            check_scenario(gen_scenario(frng, cp=forced), sess, frng, tier)
        except Exception as ex:
            import traceback
            sess.inconclusive_because(f"harness error {type(ex).__name__}: {ex} @ {traceback.format_exc()[-500:]}")
    for j_ in range(n):
        try:
            check_scenario(gen_scenario(rng), sess, rng, tier)
        except Exception as ex:
            import traceback
            sess.inconclusive_because(f"harness error {type(ex).__name__}: {ex} @ {traceback.format_exc()[-500:]}")
    return sess.export()


def main(tier: str, seed: int):
    sess = Session(PID, tier, seed, level="exploration", rule=RULE)
    sess.assume("time budgets (quantum_ms, wall_ms, time_ms_reflection) are declared inputs: scenarios set them far above any elapsed time so that clock variants stay on the same side of them")
    sess.assume("optional backends absent from the image are not exercised: LanceDB, zstd snapshot codec (the writer degrades to none), real BGE encoder, Ollama")
    total = 32 if tier == "quick" else 800
    nchunks = 8
    per = max(1, total // nchunks)
    for ex in par.pmap(_chunk, [(tier, seed, i, per) for i in range(nchunks)], workers=nchunks):
        sess.merge(ex)
    sess.require("variant_replays_compared", 60)
    sess.require("variant:hash", 20)
    sess.require("variant:clock", 15)
    sess.require("variant:warm", 8)
    sess.require("warm_recycled:mem_index_on_a_dead_object's_address", 5)
    sess.finish()


def replay(body, tier, seed):
    sess = Session(PID, tier, seed, rule=RULE)
    sess.replay_mode = True
    case = unjson(body["case"])
    check_scenario(case["scenario"], sess, random.Random(0), "quick")
    return sess.finish(exit_process=False)
