"""C10 - Agent batch driver commits exactly like a sequential loop.

Twin execution of the real `_run_agents_parallel_batch` with the agents gate on vs off (the driver's own
one-after-another path) on deep-copied states and separate log directories.
 (a) contract-following compute: `Orchestrator.run_turn` is replaced by a generated stand-in that follows the
     documented dry-run contract - it emits the same t1/t2/t4 records in dry-run and full mode, stashes the
     `_dryrun_*` artefacts, and in full mode commits through the real `apply_changes` on the store double and
     writes the apply record as the real turn does.  Everything else is the repository's code: compute on the
     read-only snapshot with log capture, independent-batch selection, staging with back-pressure, ordered
     commit.  Compared: returned results, final state (store weights, version, snapshot directory), on-disk
     log bytes per file; the compute phases are observed through a call-through wrapper on the
     `_run_turn_compute` hook (which agents were computed); the staging limit is set through the
     `enable_staging` hook (1 byte ... default).
 (b) the real stage pipeline through the driver on generated worlds.
"""
from __future__ import annotations

import copy
import json
import os
import random
from types import SimpleNamespace as NS

from vlib import par
from vlib.session import Session, unjson, chash

PID = "C10"
RULE = ("one evaluation = one batch run through the driver with the agents gate on, compared with the same batch with the gate "
        "off; non-trivial = >= 2 agents computed in one batch, or a back-pressure flush happened, or an overlapping agent was held back")


def gen_case(rng):
    n = rng.randint(1, 6)
    agents = [f"A{i}" for i in range(n)]
    rng.shuffle(agents)
    overlap = rng.random() < 0.35
    graphs = {}
    pool = [f"g{i}" for i in range(12)]
    for i, a in enumerate(agents):
        if overlap:
            graphs[a] = rng.sample(pool[:5], rng.randint(0, 3))
        else:
            graphs[a] = [f"g{i}_{j}" for j in range(rng.randint(0, 2))]
    specs = {}
    for a in agents:
        logs = []
        for _ in range(rng.randint(0, 12)):
            name = rng.choice(["t1.jsonl", "t2.jsonl", "t4.jsonl"])
            size = rng.choice([1, 1, 20, 200, 5000, 65536])
            pl = {"turn": 1, "agent": a, "k": rng.randint(0, 9), "ms": 1.5, "body": rng.choice(["x", "é", "中", " "]) * size}
            r_ = rng.random()
            if r_ < 0.08:
                pl["nested"] = {"b": 1, "a": [1, {"d": None}]}
            elif r_ < 0.14:
                pl["__mixed__"] = rng.choice(["top-int", "nested-int", "none-key"])  # expanded by the stand-in (JSON cannot carry non-string keys)
            elif r_ < 0.24:
                # free-form lines: records that do not say which turn / agent they belong to, an empty record, a trace stream
                for k_ in rng.choice([["turn"], ["agent"], ["turn", "agent"], ["turn", "agent", "k", "ms", "body"]]):
                    pl.pop(k_, None)
                if rng.random() < 0.5:
                    name = "trace.jsonl"
            logs.append([name, pl])
            if rng.random() < 0.12:
                logs.append([name, copy.deepcopy(pl)])  # the same line once more (a retry that logs again, a repeated event)
        deltas = [["node", f"n:{a}:{rng.choice('abc')}", "weight", rng.choice([0.1, -0.2, 0.3]), 1] for _ in range(rng.randint(0, 4))]
        if rng.random() < 0.12:
            # a chatty compute phase: hundreds of small records in one turn
            logs += [[rng.choice(["t1.jsonl", "t2.jsonl"]), {"turn": 1, "agent": a, "k": j, "ms": 0.5, "body": "y"}] for j in range(rng.choice([130, 200, 300]))]
        specs[a] = {"logs": logs, "deltas": deltas, "progress": rng.choice([0, 0, 2, 5]), "utter": f"utter of {a} " + rng.choice(["", "ünï", "x" * 50])}
    sizes = sorted({sum(len(str(k)) + len(str(v)) for k, v in p.items()) + 2 for s in specs.values() for _, p in s["logs"]} or {30})
    limit = rng.choice([None, 1, 2, sizes[0] - 1, sizes[0], sizes[0] + 1, 150, 4096, sizes[-1], sum(sizes)])
    workers = rng.choice([2, 3, 4, 8, 2, 3, 1, 0])  # <= 1: the agents gate stays closed, the driver must loop sequentially
    # where the driver finds an agent's graph set: state["agents"][a] as dict or object, a record without a graphs
    # entry that falls back to state["graphs_by_agent"], or graphs_by_agent only
    layout = {a: rng.choice(["agents-dict", "agents-dict", "agents-obj", "record-without-graphs+gba", "gba-only"]) for a in agents}
    regraph = None
    if rng.random() < 0.3:
        regraph = {a: (rng.sample(pool[:5], rng.randint(0, 3)) if rng.random() < 0.6 else list(graphs[a])) for a in agents}
    return {"regraph": regraph, "agents": agents, "graphs": graphs, "specs": specs, "limit": limit if (limit is None or limit >= 1) else 1, "workers": workers, "layout": layout,
            "turn_id": rng.choice([1, 1, 7, "x", 0, 0]), "cadence": rng.choice([1, 1, 2, 3]), "overlap": overlap,
            # optionally each agent's turn carries its own id (set by the compute phase), ascending in task order and straddling
            # a digit boundary / zero
            "turn_base": rng.choice([None, None, 7, 8, 9, 97, 99, -2, -1]),
            # what the batch ctx carries besides the config: present-but-falsy values are values (epoch 0, seed 0, empty budgets)
            "slow_first": rng.random() < 0.25,
            "ctx_attrs": rng.choice([None, None, {"now_ms": 0, "seed": 0}, {"now_ms": 1700000000000, "seed": 7, "now": "2023-11-14T22:13:20Z"}, {"now_ms": 0, "now": None, "slice_budgets": {}, "slice_idx": 0},
                                     {"now_ms": 5, "seed": 0, "slice_budgets": {"t2_k": 1}, "slice_idx": 2}, {"now": "", "seed": None}])}


def make_standin(case, trace):
    import clematis.engine.orchestrator.core as core
    from clematis.engine.types import ProposedDelta, TurnResult

    def run_turn(self, ctx, state, input_text):
        aid = str(getattr(ctx, "agent_id"))
        spec = case["specs"][aid]
        dry = bool(getattr(ctx, "_dry_run_until_t4", False))
        trace.append(("dry" if dry else "full", aid))
        if dry and case.get("slow_first"):
            # the compute phases take different times: the first-listed agents are the slowest (if they ran side by side, the
            # later-listed ones would finish first)
            import time as _t
            k_ = case["agents"].index(aid)
            _t.sleep(max(0.0, 0.012 * (2 - k_)))
        if case.get("turn_base") is not None:
            ctx.turn_id = case["turn_base"] + case["agents"].index(aid)
        if case.get("ctx_attrs") is not None:
            # what the turn sees of the caller's context (logical clock, seed, slice position / budgets)
            core._append_jsonl("t1.jsonl", {"turn": getattr(ctx, "turn_id", 0), "agent": aid,
                                            "ctx_view": {k_: repr(getattr(ctx, k_, "<absent>")) for k_ in ("now", "now_ms", "seed", "slice_idx", "slice_budgets")}})
        for name, payload in spec["logs"]:
            pl = dict(payload)
            if case.get("turn_base") is not None:
                pl["turn"] = ctx.turn_id
            mixed = pl.pop("__mixed__", None)
            if mixed == "top-int":
                pl[3] = "int key"
            elif mixed == "nested-int":
                pl["nested"] = {1: "x", "b": 2}
            elif mixed == "none-key":
                pl[None] = 0
            core._append_jsonl(name, pl)
        if spec.get("progress"):
            # one record object updated in place and logged after every step (a progress line): each logged line must
            # carry the value it had when it was logged
            prog = {"turn": getattr(ctx, "turn_id", 0), "agent": aid, "step": -1, "acc": []}
            for i_ in range(spec["progress"]):
                prog["step"] = i_
                prog["acc"].append(i_)
                core._append_jsonl("progress.jsonl", prog)
        deltas = [ProposedDelta(d[0], d[1], d[2], float(d[3]), op_idx=d[4], idx=i) for i, d in enumerate(spec["deltas"])]
        t4 = NS(approved_deltas=deltas, rejected_ops=[], reasons=[], metrics={})
        if dry:
            setattr(ctx, "_dryrun_t4", t4)
            setattr(ctx, "_dryrun_utter", spec["utter"])
            setattr(ctx, "_dryrun_t1", {"pops": 0, "iters": 0, "graphs_touched": list(case["graphs"][aid])})
            setattr(ctx, "_dryrun_t2", {"k_returned": 0, "k_used": 0, "cache_hit": False})
            return TurnResult(line=spec["utter"], events=[])
        apply = core.apply_changes(ctx, state, t4)
        rec = {"turn": getattr(ctx, "turn_id", 0), "agent": aid, "applied": apply.applied, "clamps": apply.clamps, "version_etag": apply.version_etag,
               "snapshot": apply.snapshot_path, "cache_invalidations": int((apply.metrics or {}).get("cache_invalidations", 0)), "ms": 0.0}
        core._append_jsonl("apply.jsonl", rec)
        return TurnResult(line=spec["utter"], events=[])

    return run_turn


def run_driver(case, parallel, sess, direct=False):
    import clematis.engine.orchestrator as orch
    import clematis.engine.orchestrator.core as core
    import clematis.engine.orchestrator.parallel as P
    import clematis.engine.util.io_logging as IOL
    from vlib.harness import patched, to_ad, tmpdir, dir_bytes
    from vlib.world import build_world_store
    from vlib import bootstrap

    bootstrap.reset_globals()
    out = {}
    with tmpdir("c10_") as d:
        logd, snapd = os.path.join(d, "logs"), os.path.join(d, "snaps")
        os.makedirs(logd)
        os.makedirs(snapd)
        old_env = {k: os.environ.get(k) for k in ("CLEMATIS_LOG_DIR", "CI")}
        os.environ["CLEMATIS_LOG_DIR"] = logd
        os.environ["CI"] = "true"
        try:
            cfg = to_ad({"perf": {"parallel": {"enabled": bool(parallel), "agents": True, "max_workers": case["workers"]}},
                         "t4": {"snapshot_dir": snapd, "snapshot_every_n_turns": case["cadence"], "cache_bust_mode": "none", "weight_min": -1.0, "weight_max": 1.0}})
            state = {"store": build_world_store({}), "version_etag": "0", "agents": {}, "graphs_by_agent": {}, "_boot_loaded": True}
            for a, g in case["graphs"].items():
                lay = (case.get("layout") or {}).get(a, "agents-dict")
                if lay == "agents-dict":
                    state["agents"][a] = {"graphs": list(g)}
                elif lay == "agents-obj":
                    state["agents"][a] = NS(graphs=list(g), name=a)
                elif lay == "record-without-graphs+gba":
                    state["agents"][a] = {"name": a}
                    state["graphs_by_agent"][a] = list(g)
                else:
                    state["graphs_by_agent"][a] = list(g)
            ctx = NS(turn_id=case["turn_id"], agent_id="batch", cfg=cfg, config=cfg, **(case.get("ctx_attrs") or {"now_ms": 0}))
            trace = []
            computed = []
            flushes = [0]
            real_compute = P._run_turn_compute
            real_enable = IOL.enable_staging

            def compute_w(c, base, aid, text):
                computed.append(aid)
                return real_compute(c, base, aid, text)

            def enable():
                s_ = real_enable(case["limit"]) if case["limit"] is not None else real_enable()
                rd = s_.drain_sorted

                def counting():
                    r = rd()
                    if r:
                        flushes[0] += 1
                    return r
                s_.drain_sorted = counting
                return s_

            tasks = [(a, f"text for {a}") for a in case["agents"]]
            exc = None
            with patched(core.Orchestrator, "run_turn", make_standin(case, trace)), patched(orch, "_run_turn_compute", compute_w), patched(orch, "enable_staging", enable):
                try:
                    if direct:
                        # the plain loop a caller would write without the driver: one ctx per agent, same config objects
                        res = []
                        for a_, text_ in tasks:
                            c_ = NS(turn_id=case["turn_id"], agent_id=a_, cfg=cfg, config=cfg, **(case.get("ctx_attrs") or {"now_ms": 0}))
                            res.append(core.Orchestrator().run_turn(c_, state, text_))
                    else:
                        res = P._run_agents_parallel_batch(ctx, state, tasks)
                except Exception as ex:
                    import traceback
                    exc = f"{type(ex).__name__}: {ex}"
                    out["tb"] = traceback.format_exc()[-500:]
                    res = []
            out.update({"exc": exc, "lines": [r.line for r in res], "w": dict(state["store"].w), "version": state.get("version_etag"),
                        "logs": {k: v.replace(snapd.encode(), b"<SNAP>") for k, v in dir_bytes(logd).items()},
                        "snaps": {k: v for k, v in dir_bytes(snapd).items() if k.endswith(".json")},
                        "computed": computed, "trace": trace, "flushes": flushes[0]})
            second = None
            if case.get("regraph") and parallel and not direct and exc is None:
                # the roster changes in place (same mapping objects) and another batch runs on the same state
                for a_, g_ in case["regraph"].items():
                    lay_ = (case.get("layout") or {}).get(a_, "agents-dict")
                    if lay_ == "agents-dict":
                        state["agents"][a_]["graphs"] = list(g_)
                    elif lay_ == "agents-obj":
                        state["agents"][a_].graphs = list(g_)
                    else:
                        state["graphs_by_agent"][a_] = list(g_)
                computed2 = []

                def compute_w2(c, base, aid, text):
                    computed2.append(aid)
                    return real_compute(c, base, aid, text)

                with patched(core.Orchestrator, "run_turn", make_standin(dict(case, graphs=case["regraph"]), trace)), patched(orch, "_run_turn_compute", compute_w2), patched(orch, "enable_staging", enable):
                    try:
                        P._run_agents_parallel_batch(ctx, state, tasks)
                        second = {"computed": computed2}
                    except Exception as ex:
                        second = {"exc": f"{type(ex).__name__}: {ex}"}
            out["second"] = second
        finally:
            for k, v in old_env.items():
                if v is None:
                    os.environ.pop(k, None)
                else:
                    os.environ[k] = v
            try:
                IOL.disable_staging()
            except Exception:
                pass
    return out


def aborted_then_next(case, sess: Session):
    """A batch that dies in its commit phase (the store hand-off of one agent raises out of Apply), then the next batch in the
    same process: the next batch writes its own lines only - nothing the dead batch had staged, nothing twice."""
    import clematis.engine.orchestrator as orch
    import clematis.engine.orchestrator.core as core
    import clematis.engine.orchestrator.parallel as P
    import clematis.engine.util.io_logging as IOL
    from vlib.harness import patched, to_ad, tmpdir, dir_bytes
    from vlib.world import build_world_store
    from vlib import bootstrap

    bootstrap.reset_globals()
    agents = case["agents"]
    if len(agents) < 2 or case["workers"] < 2:
        return
    with tmpdir("c10a_") as d:
        logd, snapd = os.path.join(d, "logs"), os.path.join(d, "snaps")
        os.makedirs(logd)
        os.makedirs(snapd)
        old_env = {k: os.environ.get(k) for k in ("CLEMATIS_LOG_DIR", "CI")}
        os.environ["CLEMATIS_LOG_DIR"] = logd
        os.environ["CI"] = "true"
        try:
            cfg = to_ad({"perf": {"parallel": {"enabled": True, "agents": True, "max_workers": max(2, case["workers"])}},
                         "t4": {"snapshot_dir": snapd, "snapshot_every_n_turns": 1, "cache_bust_mode": "none", "weight_min": -1.0, "weight_max": 1.0}})
            state = {"store": build_world_store({}), "version_etag": "0", "agents": {a: {"graphs": [f"own_{a}"]} for a in agents}, "graphs_by_agent": {}, "_boot_loaded": True}
            c1 = copy.deepcopy(case)
            c1["graphs"] = {a: [f"own_{a}"] for a in agents}
            c1["turn_base"] = None
            c1["ctx_attrs"] = None
            c1["slow_first"] = False
            c2 = copy.deepcopy(c1)
            for a in agents:
                for _, pl in c1["specs"][a]["logs"]:
                    pl["batch"] = 1
                for _, pl in c2["specs"][a]["logs"]:
                    pl["batch"] = 2
                c1["specs"][a]["progress"] = c2["specs"][a]["progress"] = 0
                c1["specs"][a]["deltas"] = c1["specs"][a]["deltas"] or [["node", f"n:{a}:a", "weight", 0.1, 1]]
            tasks = [(a, f"text for {a}") for a in agents]
            real_enable = IOL.enable_staging

            def enable():
                return real_enable(case["limit"]) if case["limit"] is not None else real_enable()

            real_apply = orch.apply_changes
            calls = [0]
            fail_at = 1 + (len(case["agents"]) + len(str(case["limit"]))) % 2  # the first or the second commit

            def faulty_apply(ctx, st, t4):
                calls[0] += 1
                if calls[0] == fail_at:
                    raise RuntimeError("commit-phase fault")
                return real_apply(ctx, st, t4)

            ctx1 = NS(turn_id=1, agent_id="batch", cfg=cfg, config=cfg, now_ms=0)
            aborted = None
            with patched(core.Orchestrator, "run_turn", make_standin(c1, [])), patched(orch, "enable_staging", enable), patched(orch, "apply_changes", faulty_apply):
                try:
                    P._run_agents_parallel_batch(ctx1, state, tasks)
                except Exception as ex:
                    aborted = type(ex).__name__
            sess.evaluations += 1
            if aborted is None:
                sess.count("aborted_batch_legs:first_batch_survived_the_fault")
                return
            before = {k: v for k, v in dir_bytes(logd).items()}
            ctx2 = NS(turn_id=2, agent_id="batch", cfg=cfg, config=cfg, now_ms=0)
            err2 = None
            with patched(core.Orchestrator, "run_turn", make_standin(c2, [])), patched(orch, "enable_staging", enable):
                try:
                    P._run_agents_parallel_batch(ctx2, state, tasks)
                except Exception as ex:
                    err2 = f"{type(ex).__name__}: {ex}"[:160]
            sess.count("batches_after_an_aborted_batch")
            tcase = {"aborted_then_next": True, "agents": agents, "limit": case["limit"], "fail_at": fail_at}
            if err2:
                sess.violation("next-batch-raises-after-an-aborted-batch", tcase, err2)
                return
            after = dir_bytes(logd)
            foreign = []
            for name, b in after.items():
                new = b[len(before.get(name, b"")):] if b.startswith(before.get(name, b"")) else b
                for ln in new.split(b"\n"):
                    if not ln:
                        continue
                    try:
                        rec = json.loads(ln)
                    except Exception:
                        foreign.append((name, "unparsable line"))
                        continue
                    if name != "apply.jsonl" and isinstance(rec, dict) and rec.get("batch") == 1:
                        foreign.append((name, rec.get("agent")))
            if foreign:
                sess.violation("next-batch-writes-lines-of-the-aborted-batch", tcase, {"lines": foreign[:4]})
            else:
                sess.nontrivial.add(chash(("aborted", tuple(agents), case["limit"], fail_at)))
        finally:
            for k, v in old_env.items():
                if v is None:
                    os.environ.pop(k, None)
                else:
                    os.environ[k] = v
            try:
                IOL.disable_staging()
            except Exception:
                pass


def model_pick(case):
    picked, used = [], set()
    for a in case["agents"]:
        if len(picked) >= max(1, case["workers"]):
            break
        g = set(case["graphs"][a])
        if used.isdisjoint(g):
            picked.append(a)
            used |= g
    return picked


def check_case(case, sess: Session):
    par_ = run_driver(case, True, sess)
    seq = run_driver(case, False, sess)
    sess.evaluations += 1
    sess.count("batches_run")
    sess.sample({"agents": case["agents"], "graphs": case["graphs"], "staging_limit": case["limit"], "workers": case["workers"], "turn_id": case["turn_id"],
                 "records_per_agent": {a: len(s_["logs"]) for a, s_ in case["specs"].items()}, "computed": par_.get("computed"), "flushes": par_.get("flushes")})
    if seq["exc"]:
        sess.inconclusive_because("sequential reference raised: " + seq["exc"][:150])
        return
    if par_["exc"]:
        mech = "driver-raises:" + par_["exc"].split(":")[0]
        if "LOG_STAGING_BACKPRESSURE" in par_["exc"]:
            mech = "staging-limit-below-one-record:raises-out-of-driver"
        sess.violation(mech, case, {"exc": par_["exc"][:200], "tb": par_.get("tb", "")[-300:]})
        return
    agents = case["agents"]
    # --- batch selection
    exp_pick = model_pick(case) if case["workers"] > 1 else []  # gate closed: nothing goes through the compute phase
    if par_["computed"] != exp_pick:
        sess.violation("computed-set-not-the-independent-batch", case, {"computed": par_["computed"], "model": exp_pick})
    seen_g = set()
    for a in par_["computed"]:
        g = set(case["graphs"][a])
        if not seen_g.isdisjoint(g):
            sess.violation("overlapping-agents-computed-in-one-batch", case, {"computed": par_["computed"]})
            break
        seen_g |= g
    if par_.get("second") and case["workers"] > 1:
        sec = par_["second"]
        sess.count("second_batches_after_a_roster_change")
        if "exc" in sec:
            sess.violation("second-batch-raises", case, sec["exc"][:200])
        else:
            exp2 = model_pick(dict(case, graphs=case["regraph"]))
            if sec["computed"] != exp2:
                sess.violation("computed-set-not-the-independent-batch:second-batch-after-roster-change", case, {"computed": sec["computed"], "model": exp2, "graphs_now": case["regraph"]})
    held = [a for a in agents if a not in exp_pick]
    pairwise_disjoint = all(set(case["graphs"][a]).isdisjoint(case["graphs"][b]) for i, a in enumerate(agents) for b in agents[i + 1:])
    if len(par_["computed"]) >= 2 or par_["flushes"] > 1 or held:
        sess.nontrivial.add(chash((case["agents"], case["graphs"], case["limit"], case["workers"])))
    if par_["flushes"] > 1:
        sess.count("batches_with_backpressure_flush")
    if held:
        sess.count("batches_with_held_back_agents")
    if not pairwise_disjoint:
        sess.count("overlap_batches(selection only)")
        return
    if case["workers"] <= 1:
        sess.count("batches_with_worker_limit_le_1(gate closed)")
        if len(par_["lines"]) != len(seq["lines"]):
            sess.violation("agents-gate-closed(max_workers<=1):agents-dropped", case, {"tasks": len(agents), "workers": case["workers"], "results": len(par_["lines"])})
            return
    elif len(agents) > case["workers"]:
        # more pairwise-disjoint agents than workers
        if len(par_["lines"]) != len(seq["lines"]):
            sess.violation("worker-limit-below-batch-size:agents-silently-dropped", case, {"tasks": len(agents), "workers": case["workers"], "results": len(par_["lines"])})
        return
    sess.count("disjoint_batches_compared")
    # the driver's own sequential path against a plain loop of turns (the reference the property names)
    dire = run_driver(case, False, sess, direct=True)
    if not dire["exc"]:
        sess.count("direct_loop_references")
        for fld in ("lines", "w", "version", "logs", "snaps"):
            if dire[fld] != seq[fld]:
                detail = None
                if fld == "logs":
                    detail = [k for k in sorted(set(dire["logs"]) | set(seq["logs"])) if dire["logs"].get(k) != seq["logs"].get(k)]
                elif fld == "snaps":
                    detail = {"direct": sorted(dire["snaps"]), "driver": sorted(seq["snaps"])}
                sess.violation("driver-sequential-path-differs-from-a-plain-loop:" + fld, case, detail)
                break
    if par_["lines"] != seq["lines"]:
        sess.violation("results-differ-from-sequential", case, {"par": par_["lines"], "seq": seq["lines"]})
    if par_["w"] != seq["w"] or par_["version"] != seq["version"]:
        sess.violation("final-state-differs-from-sequential", case, {"par_version": par_["version"], "seq_version": seq["version"]})
    if par_["logs"] != seq["logs"]:
        diffs = []
        for k in sorted(set(par_["logs"]) | set(seq["logs"])):
            a, b = par_["logs"].get(k), seq["logs"].get(k)
            if a == b:
                continue
            if a is None or b is None:
                diffs.append(f"{k}: only in {'sequential' if a is None else 'parallel'}")
                continue
            al, bl = a.split(b"\n"), b.split(b"\n")
            if len(al) != len(bl):
                diffs.append(f"{k}: {len(al) - 1} vs {len(bl) - 1} records")
                continue
            for i, (p, q) in enumerate(zip(al, bl)):
                if p != q:
                    try:
                        pa, qa = json.loads(p), json.loads(q)
                        keys = [x for x in set(pa) | set(qa) if pa.get(x) != qa.get(x)]
                    except Exception:
                        keys = ["<unparsable>"]
                    diffs.append(f"{k}[{i}] fields {sorted(keys)}")
                    break
        only_snapshot_field = all(d.startswith("apply.jsonl[") and d.endswith("fields ['snapshot']") for d in diffs)
        mech = "log-bytes-differ-from-sequential"
        if only_snapshot_field and diffs:
            mech = "commit-phase-snapshot-identity(apply.jsonl snapshot field)"
        sess.violation(mech, case, {"diffs": diffs[:4], "limit": case["limit"]})
    if sorted(par_["snaps"]) != sorted(seq["snaps"]):
        sess.violation("commit-phase-snapshot-identity(snapshot files)", case, {"par": sorted(par_["snaps"]), "seq": sorted(seq["snaps"])})
    elif par_["snaps"] != seq["snaps"]:
        sess.violation("snapshot-bodies-differ-from-sequential", case, None)


# ------------------------------------------------------------------------------ (b) real pipeline
def real_pipeline_case(rng, sess: Session):
    import clematis.engine.orchestrator.parallel as P
    from vlib.turn import TurnEnv
    from vlib.world import gen_world
    from vlib.harness import to_ad
    from vlib import bootstrap

    bootstrap.reset_globals()
    world = gen_world(rng, ngraphs=(2, 3), neps=(2, 8))
    out = {}
    for parallel in (True, False):
        cfg = {"perf": {"parallel": {"enabled": parallel, "agents": True, "max_workers": 4}}}
        env = TurnEnv(cfg, copy.deepcopy(world), boot_loaded=rng.random() < 0.5)
        with env:
            gids = list(world["graphs"])
            env.state["agents"] = {"A": {"graphs": gids[:1]}, "B": {"graphs": gids[1:2]}}
            ctx = env.ctx("batch", 1)
            try:
                res = P._run_agents_parallel_batch(ctx, env.state, [("A", "hello world"), ("B", "moon river")])
                out[parallel] = {"exc": None, "lines": [r.line for r in res], "logs": {k: env.canon(v) for k, v in env.logs().items()}}
            except Exception as ex:
                import traceback
                tb = traceback.extract_tb(ex.__traceback__)
                out[parallel] = {"exc": f"{type(ex).__name__}@{tb[-1].name if tb else '?'}", "msg": str(ex)[:150]}
            finally:
                try:
                    import clematis.engine.util.io_logging as IOL
                    IOL.disable_staging()
                except Exception:
                    pass
    sess.evaluations += 1
    sess.count("real_pipeline_batches")
    case = {"world": world, "real_pipeline": True}
    p, s = out[True], out[False]
    if s["exc"]:
        sess.inconclusive_because("real pipeline sequential reference raised: " + s["exc"])
        return
    if p["exc"]:
        sess.violation("real-pipeline-through-batch-driver:raises:" + p["exc"], case, p.get("msg"))
        return
    if p["lines"] != s["lines"]:
        sess.violation("real-pipeline-through-batch-driver:results-differ", case, {"par": p["lines"], "seq": s["lines"]})
    if p["logs"] != s["logs"]:
        missing = sorted(set(s["logs"]) - set(p["logs"]))
        sess.violation("real-pipeline-through-batch-driver:logs-differ", case, {"streams_only_in_sequential": missing, "differing": [k for k in p["logs"] if p["logs"].get(k) != s["logs"].get(k)][:5]})


def _chunk(args):
    tier, seed, i, n = args
    from vlib import bootstrap

    bootstrap.init()
    rng = random.Random(f"C10/{seed}/{i}")
    sess = Session.worker(PID, tier, seed)
    for j in range(n):
        try:
            c_ = gen_case(rng)
            check_case(c_, sess)
            if j % 10 == 0:
                real_pipeline_case(rng, sess)
            if j % 2 == 0:
                aborted_then_next(c_, sess)
        except Exception as ex:
            import traceback
            sess.inconclusive_because(f"harness error {type(ex).__name__}: {ex} @ {traceback.format_exc()[-600:]}")
    return sess.export()


def main(tier: str, seed: int):
    sess = Session(PID, tier, seed, level="exploration", rule=RULE)
    sess.assume("the sequential reference is the driver's own one-after-another path (agents gate off) on a deep copy of the state with its own log directory")
    sess.assume("the contract-following compute stand-in replaces Orchestrator.run_turn only; snapshotting, apply, staging, selection and commit are the repository's code")
    total = 140 if tier == "quick" else 30000
    nchunks = par.NWORK
    per = max(1, total // nchunks)
    for ex in par.pmap(_chunk, [(tier, seed, i, per) for i in range(nchunks)]):
        sess.merge(ex)
    sess.require("batches_run", 100)
    sess.require("disjoint_batches_compared", 40)
    sess.require("batches_with_backpressure_flush", 15)
    sess.require("batches_with_held_back_agents", 10)
    sess.require("real_pipeline_batches", 5)
    sess.require("batches_after_an_aborted_batch", 15)
    sess.finish()


def replay(body, tier, seed):
    sess = Session(PID, tier, seed, rule=RULE)
    sess.replay_mode = True
    case = unjson(body["case"])
    if case.get("real_pipeline"):
        real_pipeline_case(random.Random(0), sess)
    elif case.get("aborted_then_next"):
        rng = random.Random(0)
        for _ in range(200):
            aborted_then_next(gen_case(rng), sess)
    else:
        check_case(case, sess)
    return sess.finish(exit_process=False)
